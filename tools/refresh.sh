#!/bin/bash
# Regenerate MANIFEST.json and every evidence file from /repo (quick tier), validate both against the schemas.
cd /verif || exit 9
unset VERIF_REPO VERIF_EVIDENCE_DIR
python3 vf/mkmanifest.py || exit 1
rc=0
for p in $(python3 -c "import sys; sys.path.insert(0,'/verif'); from vf.properties import PROPS; print(' '.join(sorted(PROPS)))"); do
  python3 vf/main.py check $p --tier quick | grep -v '^KNOWN' | tail -1
  [ ${PIPESTATUS[0]} -ne 0 ] && rc=1
done
python3-vt - <<'PY' || rc=1
import json, jsonschema, glob
jsonschema.validate(json.load(open('/verif/MANIFEST.json')), json.load(open('/root/.vp/MANIFEST.schema.json')))
S = json.load(open('/root/.vp/EVIDENCE.schema.json'))
m = json.load(open('/verif/MANIFEST.json'))
for c in m['checks']:
    d = json.load(open(c['evidence_file'])); jsonschema.validate(d, S)
    assert d['level'] == c['level_claimed']['category'], c['property_id']
    assert d['violations'] == 0, c['property_id']
    if d['level'] == 'proof': assert d['coverage']['obligations'] == d['coverage']['discharged'] >= 1, c['property_id']
print("manifest + %d evidence files valid" % len(m['checks']))
PY
exit $rc
