#!/bin/bash
# Regenerate MANIFEST.json and every evidence file from /repo (quick tier), validate both against the schemas.
cd /verif || exit 9
unset VERIF_REPO VERIF_EVIDENCE_DIR
python3 vf/mkmanifest.py || exit 1
rc=0
: > build/known_hits.txt
for p in $(python3 -c "import sys; sys.path.insert(0,'/verif'); from vf.properties import PROPS; print(' '.join(sorted(PROPS)))"); do
  python3 vf/main.py check $p --tier quick > build/refresh_$p.out; r=$?
  grep '^KNOWN' build/refresh_$p.out >> build/known_hits.txt
  grep -v '^KNOWN' build/refresh_$p.out | tail -1
  [ $r -ne 0 ] && rc=1
done
# a `finding:` line that no check reports any more is stale (the defect was repaired or the class string changed): list it
python3 - <<'PY'
import sys, re, json
sys.path.insert(0, '/verif')
from vf.main import load_known
known, _ = load_known()
hits = open('/verif/build/known_hits.txt').read()
thorough_only = {json.loads(l[len("finding:"):])["input"] for l in open("/verif/known_findings.txt") if l.startswith("finding: {") and json.loads(l[len("finding:"):]).get("tier") == "thorough"}
stale = [k for k in known if k["input"] not in thorough_only and ("property=%s %s input=%s" % (k["property"], k["obligation"], k["input"])) not in hits]
print("known findings: %d listed, %d reported by the quick checks, %d stale" % (len(known), len(known) - len(stale), len(stale)))
for k in stale: print("  STALE finding: property=%s unit=%s obligation=%r input=%r" % (k["property"], k["unit"], k["obligation"][:80], k["input"][:80]))
PY
python3-vt - <<'PY' || rc=1
import json, jsonschema, glob
jsonschema.validate(json.load(open('/verif/MANIFEST.json')), json.load(open('/root/.vp/MANIFEST.schema.json')))
S = json.load(open('/root/.vp/EVIDENCE.schema.json'))
m = json.load(open('/verif/MANIFEST.json'))
for c in m['checks']:
    d = json.load(open(c['evidence_file'])); jsonschema.validate(d, S)
    assert d['level'] == c['level_claimed']['category'], c['property_id']
    assert d['violations'] == 0, c['property_id']
    if d['level'] == 'proof': assert d['coverage']['obligations'] == d['coverage']['discharged'] >= 1, c['property_id']
print("manifest + %d evidence files valid" % len(m['checks']))
PY
exit $rc
