#!/usr/bin/env python3
"""keep_seed.py <PROP> <n> <slug> "<needs>" "<caught by>"  -- copy a confirmed seeded change into /verif/seeded/<slug>/"""
import sys, os, shutil, json
prop, n, slug, needs, caught = sys.argv[1:6]
src = "%s/%s.out/%s" % (os.environ.get("SEED_ROOT", "/tmp/seed"), prop, n)
dst = "/verif/seeded/%s" % slug
os.makedirs(dst, exist_ok=True)
for f in os.listdir(src):
    if f.endswith(".log") and not f.startswith("confirm"): continue
    if os.path.getsize(os.path.join(src, f)) > 200000: continue
    shutil.copy(os.path.join(src, f), os.path.join(dst, f))
confirm = open(os.path.join(src, "confirm.txt")).read() if os.path.exists(os.path.join(src, "confirm.txt")) else ""
import subprocess
base = subprocess.check_output(["git","-C","/repo","rev-parse","--short","HEAD"]).decode().strip()
meta = {"property": prop, "base_commit": base, "round": os.environ.get("SEED_ROUND", "1"), "needs_to_manifest": needs, "written_by": "fresh sub-agent given only the property text and a scratch worktree",
        "confirmed": {"how": "tools/confirm_seed.sh in the scratch worktree: git apply; cargo build; cargo test --workspace --no-fail-fast --offline; demo.sh with the change; git checkout; rebuild; demo.sh without it", "result": confirm.strip().splitlines()},
        "detected_by": caught, "how_checked": "tools/try_seed.sh patch.diff <checks> (checks run with VERIF_REPO pointing at a scratch copy of /repo with the patch applied; /repo itself untouched)"}
json.dump(meta, open(os.path.join(dst, "meta.json"), "w"), indent=1)
print("kept", dst)
