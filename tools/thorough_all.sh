#!/bin/bash
# Run the thorough tier of the properties given (default: all), one after the other; log to build/thorough_all.log.
cd /verif || exit 9
unset VERIF_REPO VERIF_EVIDENCE_DIR
props="$*"; [ -z "$props" ] && props=$(python3 -c "import sys; sys.path.insert(0,'/verif'); from vf.properties import PROPS; print(' '.join(sorted(PROPS)))")
rc=0
for p in $props; do
  s=$(date +%s.%N)
  python3 vf/main.py check $p --tier thorough > build/thorough_$p.out; r=$?
  grep -v '^KNOWN' build/thorough_$p.out | tail -1 >> build/thorough_all.log
  echo "$p exit=$r wall=$(echo "$(date +%s.%N) - $s" | bc) s" >> build/thorough_all.log
  [ $r -ne 0 ] && rc=1
done
exit $rc
