#!/usr/bin/env python3
"""Rewrite the U44 (C02) and U43 K-REPAIRED (C09) blocks of known_findings.txt from runs of both tiers on /repo (development tool: run it by hand
after a fix: commit of /repo that moves the set of non-idempotent corpus files or of repaired rows, then REVIEW the diff of known_findings.txt:
a new entry is a new defect of the unchanged tree or a regression of the fix)."""
import json, os, subprocess, sys
os.chdir('/verif')
K = 'known_findings.txt'
H44 = "# U44 (C02 at the process boundary)"
H43 = "# U43 (C09 clause 2): grid points at which this tree DELIBERATELY"
def run(unit, tier):
    env = dict(os.environ, VF_FULL_INPUT="1"); env.pop("VERIF_REPO", None)
    out = subprocess.run([sys.executable, "vf/main.py", "unit", unit, "--tier", tier], capture_output=True, text=True, env=env).stdout
    return [l.split(':: input=', 1)[1].strip() for l in out.splitlines() if l.startswith('FAILED ')]
old = open(K).read().split('\n')
H46 = "# U46 (C01 / C03 at the process boundary)"
keep = [l for l in old if '"unit": "U44"' not in l and not l.startswith(H44) and '"unit": "U46"' not in l and not l.startswith(H46) and not ('"unit": "U43"' in l and 'K-REPAIRED' in l) and not l.startswith(H43)]
while keep and keep[-1] == '': keep.pop()
lines = [H44 + ": per file of the frozen corpus, the exact set of (max_width / style edition) of the tier's grid at which the second pass of the real binary differs from the first on the unchanged tree -- genuine non-idempotent layouts of rustfmt (a dozen root causes: an array that holds a comment, leading pipes of match arms, struct literals and aligned fields at narrow widths, string literals, wrapped comments, ...); not repaired (each is a layout decision that depends on where the first pass left the text, no small and safe patch)"]
ob44 = "rustfmt binary: formatting its own output again succeeds and returns it unchanged, byte for byte"
for t in ('quick', 'thorough'):
    for i in run('U44', t):
        d = {"property": "C02", "unit": "U44", "obligation": ob44, "input": i, "what": "real binary: rustfmt --config-path <cfg> < file | rustfmt --config-path <cfg> differs from the first output"}
        if t == 'thorough': d["tier"] = "thorough"
        lines.append("finding: " + json.dumps(d, ensure_ascii=False))
lines.append(H43 + " differs from the pinned release, because the pinned release's output there is itself a defect that a fix: commit repaired (units/U43_corpus/repaired.txt). Read literally C09 does not hold there; they are listed so that the deviation is visible and any other deviation is still reported")
ob43 = "rustfmt binary: the text under a released style edition equals what the pinned release produced (recorded table)"
for t in ('quick', 'thorough'):
    for i in run('U43', t):
        if not i.startswith('K-REPAIRED'): continue
        d = {"property": "C09", "unit": "U43", "obligation": ob43, "input": i, "what": "the pinned release's output is itself a defect there (see the reason in the input); this tree's is not"}
        if t == 'thorough': d["tier"] = "thorough"
        lines.append("finding: " + json.dumps(d, ensure_ascii=False))
lines.append(H46 + ": per file of the frozen corpus, the grid points at which the output of the real binary does not hold the content tokens / doc-comment words / comment words of its input on the unchanged tree -- genuine defects of rustfmt: F60 `impl Bar { pub type Iter = impl Trait; }` loses its `pub` (rewrite_type_alias passes DEFAULT_VISIBILITY for an opaque type in an impl; pinned by tests/target/issue_5027.rs, so not repaired)")
def run46(tier):
    env = dict(os.environ, VF_FULL_INPUT="1"); env.pop("VERIF_REPO", None)
    out = subprocess.run([sys.executable, "vf/main.py", "unit", "U46", "--tier", tier], capture_output=True, text=True, env=env).stdout
    r = []
    for l in out.splitlines():
        if l.startswith('FAILED '):
            ob, i = l[len('FAILED '):].split(' :: input=', 1)
            r.append((ob.strip(), i.strip()))
    return r
for t in ('quick', 'thorough'):
    for ob, i in run46(t):
        prop = "C03" if ob.startswith("rustfmt binary: the comments of the output") else "C01"
        d = {"property": prop, "unit": "U46", "obligation": ob, "input": i, "what": "real binary: rustfmt --config-path <cfg> < file; input and output lexed with rustc_lexer"}
        if t == 'thorough': d["tier"] = "thorough"
        lines.append("finding: " + json.dumps(d, ensure_ascii=False))
open(K, 'w').write('\n'.join(keep + lines) + '\n')
print("U44 + K-REPAIRED + U46 entries: %d" % (len(lines) - 3))
