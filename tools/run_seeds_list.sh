#!/bin/bash
# usage: run_seeds_list.sh <root> <shards> [tier]   -- for every <root>/Cxx.out/<n>/patch.diff run the check of property Cxx against a scratch copy with the patch
cd /verif || exit 9
R=$1; N=${2:-4}
ls $R/C*.out/*/patch.diff > build/seeds_list.txt
for k in $(seq 0 $((N-1))); do
  (
    export VERIF_BUILD=/verif/build/shard$((k+${SHARD_BASE:-0})); mkdir -p $VERIF_BUILD
    out=build/seeds${SHARD_BASE:-0}_$k.log; : > $out
    awk -v n=$N -v k=$k 'NR % n == k' build/seeds_list.txt | while read p; do
      c=$(echo $p | sed 's|.*/\(C[0-9][0-9]\)\.out/.*|\1|')
      echo "== $p prop: $c" >> $out
      BASE=${BASE:-8b814e0} tools/try_seed.sh $p $c >> $out 2>&1
    done
  ) &
done
wait
cat build/seeds${SHARD_BASE:-0}_[0-9]*.log > build/seeds.log
grep -c "^== " build/seeds.log
