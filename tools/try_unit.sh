#!/bin/bash
# usage: try_unit.sh <patch.diff> <Uxx> [Uxx...]  -- run single units against a scratch copy of /repo with the patch applied (development tool)
P=$1; shift
S=/tmp/mutu_$$/repo
mkdir -p $S && rsync -a --exclude target --exclude .git /repo/ $S/ || exit 9
(cd $S && patch -p1 -s < $P) || { echo "PATCH FAILED"; rm -rf /tmp/mutu_$$; exit 9; }
cd /verif
for u in "$@"; do
  VERIF_REPO=$S VERIF_BUILD=${VERIF_BUILD:-/verif/build/shardX} python3 vf/main.py unit $u 2>&1 | grep -E "^(FAILED|UNDECIDED)" | cut -c1-${CUT:-330}
done
rm -rf /tmp/mutu_$$
