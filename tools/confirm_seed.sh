#!/bin/bash
# usage: confirm_seed.sh <worktree> <outdir/n>   -- confirms a seeded change in a scratch worktree:
#   with the change: builds, the whole existing test suite passes, the demo FAILS; without it: the demo PASSES.
WT=$1; D=$2
export CARGO_NET_OFFLINE=true
cd $WT || exit 9
git checkout -q -- . && git clean -fdq -e target
export LD_LIBRARY_PATH=$(rustc --print sysroot)/lib
R=$D/confirm.txt; : > $R
git apply $D/patch.diff || { echo "APPLY FAILED" >> $R; exit 1; }
cargo build --offline >/dev/null 2>&1 || { echo "BUILD FAILED with change" >> $R; git checkout -q -- .; exit 1; }
cargo test --workspace --no-fail-fast --offline > $D/confirm_tests.log 2>&1
echo "tests with change: $(grep -c '^test result: ok' $D/confirm_tests.log) ok-lines, $(grep -c 'FAILED' $D/confirm_tests.log) FAILED mentions; passed=$(grep '^test result' $D/confirm_tests.log | sed 's/.*ok. \([0-9]*\) passed.*/\1/' | paste -sd+ | bc)" >> $R
cargo build --offline >/dev/null 2>&1
bash $D/demo.sh $WT/target/debug > $D/confirm_demo_with.log 2>&1; echo "demo with change: exit $?" >> $R
git checkout -q -- .
cargo build --offline >/dev/null 2>&1
bash $D/demo.sh $WT/target/debug > $D/confirm_demo_without.log 2>&1; echo "demo without change: exit $?" >> $R
git status --short | grep -v '^??' >> $R
cat $R
