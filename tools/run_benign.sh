#!/bin/bash
# Run the checks that read a file touched by each behaviour-preserving patch under /verif/benign (written by sub-agents that saw only the property
# text): every one must end without VIOLATION (exit 1 would be a false alarm); UNDECIDED (lost anchor) is tolerated but listed.
cd /verif || exit 9
out=build/benign.log; : > $out
for d in ${@:-benign/*/}; do
  d=${d%/}; p=$d/patch.diff
  props=$(python3 tools/props_for_patch.py $p)
  echo "== $d props: $props" >> $out
  BASE=baaa8b0 tools/try_seed.sh $p $props >> $out 2>&1
done
grep -c "^== " $out; grep -E "VIOLATION|UNDECIDED|PATCH FAILED" $out | cut -c1-200
