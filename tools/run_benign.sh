#!/bin/bash
# Run the checks that read a file touched by each behaviour-preserving patch under /verif/benign (written by sub-agents that saw only the property
# text): every one must end without VIOLATION (exit 1 would be a false alarm); UNDECIDED (lost anchor) is tolerated but listed.
# usage: run_benign.sh [shards]   -- shards run side by side, each with its own build tree (VERIF_BUILD=/verif/build/shard<k>)
cd /verif || exit 9
N=${1:-3}
ls -d /verif/benign/*/ | sed 's|/$||' > build/benign_list.txt
for k in $(seq 0 $((N-1))); do
  (
    export VERIF_BUILD=/verif/build/shard$k; mkdir -p $VERIF_BUILD
    out=build/benign_$k.log; : > $out
    awk -v n=$N -v k=$k 'NR % n == k' build/benign_list.txt | while read d; do
      p=$d/patch.diff
      props=$(python3 tools/props_for_patch.py $p)
      echo "== $d props: $props" >> $out
      BASE=baaa8b0 tools/try_seed.sh $p $props >> $out 2>&1
    done
  ) &
done
wait
cat build/benign_[0-9]*.log > build/benign.log
grep -c "^== " build/benign.log; grep -E "VIOLATION|UNDECIDED|PATCH FAILED" build/benign.log | cut -c1-200
