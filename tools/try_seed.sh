#!/bin/bash
# usage: try_seed.sh <patch.diff> <Cxx> [Cxx...]  -- run checks against a scratch copy of /repo with the patch applied (never touches /repo).
# If the patch no longer applies to the current tree (a later fix: commit touched the same lines) the scratch copy is taken from the
# base commit named in the meta.json next to the patch (or $BASE) instead; failures that only reflect fixes made after that commit are then expected too.
P=$1; shift
S=/tmp/mut_$$/repo
mkdir -p $S && rsync -a --exclude target --exclude .git /repo/ $S/ || exit 9
if ! (cd $S && patch -p1 -s --dry-run < $P >/dev/null 2>&1); then
  B=${BASE:-$(python3 -c "import json,os,sys; print(json.load(open(os.path.join(os.path.dirname('$P'),'meta.json'))).get('base_commit',''))" 2>/dev/null)}
  [ -z "$B" ] && { echo "PATCH FAILED (no base commit known)"; rm -rf /tmp/mut_$$; exit 9; }
  echo "note: patch does not apply to the current tree; using base commit $B"
  rm -rf $S && mkdir -p $S && git -C /repo archive $B | tar -x -C $S || exit 9
fi
(cd $S && patch -p1 -s < $P) || { echo "PATCH FAILED"; rm -rf /tmp/mut_$$; exit 9; }
cd /verif
for c in "$@"; do
  VERIF_REPO=$S VF_UNIT_CACHE=${VERIF_BUILD:-/verif/build}/unit-cache python3 vf/main.py check $c 2>&1 | grep -E "^(VIOLATION|UNDECIDED|C[0-9]+ tier)" | cut -c1-260
done
rm -rf /tmp/mut_$$
