#!/bin/bash
# usage: try_seed.sh <patch.diff> <Cxx> [Cxx...]  -- run checks against a scratch copy of /repo with the patch applied (never touches /repo)
P=$1; shift
S=/tmp/mut_$$/repo
mkdir -p $S && rsync -a --exclude target --exclude .git /repo/ $S/ || exit 9
(cd $S && patch -p1 -s < $P) || { echo "PATCH FAILED"; rm -rf /tmp/mut_$$; exit 9; }
cd /verif
for c in "$@"; do
  VERIF_REPO=$S python3 vf/main.py check $c 2>&1 | grep -E "^(VIOLATION|UNDECIDED|C[0-9]+ tier)" | cut -c1-260
done
rm -rf /tmp/mut_$$
# evidence files were rewritten from the mutated copy: restore them from a run on /repo later (caller's job)
