#!/usr/bin/env python3
"""usage: props_for_patch.py <patch.diff>  -- the properties whose units read a file the patch touches (scan units read every file of src/)."""
import sys, re, os, glob, json
sys.path.insert(0, '/verif')
from vf.properties import PROPS
touched = set(re.findall(r'^\+\+\+ b/(\S+)', open(sys.argv[1]).read(), re.M))
unit_files = {}
for ud in glob.glob('/verif/units/U*'):
    uid = os.path.basename(ud).split('_')[0]
    fs = set()
    for f in glob.glob(ud + '/*'):
        if os.path.isfile(f):
            fs |= set(re.findall(r'(?:src|config_proc_macro/src|check_diff/src)/[\w/]+\.rs', open(f, errors='replace').read()))
    scan = 'scan' in json.load(open(ud + '/unit.json'))
    unit_files[uid] = (fs, scan)
out = []
for pid in sorted(PROPS):
    for u in PROPS[pid]['units']:
        uid = u if isinstance(u, str) else u['unit']
        fs, scan = unit_files.get(uid, (set(), False))
        if touched & fs or (scan and any(t.startswith('src/') for t in touched)):
            out.append(pid); break
print(' '.join(out))
