#!/bin/bash
# usage: run_benign_list.sh <file with patch directories> <shards>
cd /verif || exit 9
L=$1; N=${2:-4}
for k in $(seq 0 $((N-1))); do
  (
    export VERIF_BUILD=/verif/build/shard$((k+4)); mkdir -p $VERIF_BUILD
    out=build/benign_re_$k.log; : > $out
    awk -v n=$N -v k=$k 'NR % n == k' $L | while read d; do
      p=$d/patch.diff
      props=$(python3 tools/props_for_patch.py $p)
      echo "== $d props: $props" >> $out
      BASE=baaa8b0 tools/try_seed.sh $p $props >> $out 2>&1
    done
  ) &
done
wait
cat build/benign_re_[0-9]*.log > build/benign_re.log
grep -c "^== " build/benign_re.log; grep -E "VIOLATION|PATCH FAILED" build/benign_re.log | cut -c1-200
