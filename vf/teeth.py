#!/usr/bin/env python3
"""vf teeth [Uxx ...] — deliberate breakage: every entry of units/<U>/teeth.json is a small compile-clean edit of /repo (applied to a
scratch copy, never to /repo) that must make the unit FAIL (exit 1) with an obligation containing `expect`.  Guards the machinery against
silently losing its teeth; run after changes to the framework, not part of the registered checks."""
import sys, os, json, subprocess, shutil, tempfile
HERE = os.path.dirname(os.path.dirname(os.path.abspath(__file__)))


def main():
    want = sys.argv[1:]
    udir = os.path.join(HERE, "units")
    total = bad = 0
    for d in sorted(os.listdir(udir)):
        tj = os.path.join(udir, d, "teeth.json")
        uid = d.split("_")[0]
        if not os.path.exists(tj) or (want and uid not in want): continue
        for k, t in enumerate(json.load(open(tj))):
            total += 1
            tmp = tempfile.mkdtemp(prefix="vf_teeth_")
            repo = os.path.join(tmp, "repo")
            subprocess.run(["rsync", "-a", "--exclude", "target", "--exclude", ".git", "/repo/", repo + "/"], check=True)
            p = os.path.join(repo, t["file"])
            s = open(p).read()
            if s.count(t["old"]) != 1:
                print("TEETH %s #%d: anchor not unique/found in %s (%d)" % (uid, k, t["file"], s.count(t["old"]))); bad += 1; shutil.rmtree(tmp); continue
            open(p, "w").write(s.replace(t["old"], t["new"]))
            env = dict(os.environ, VERIF_REPO=repo)
            r = subprocess.run([sys.executable, os.path.join(HERE, "vf", "main.py"), "unit", uid] + (["--only", t["only"]] if "only" in t else []), capture_output=True, text=True, env=env)
            failed_lines = "\n".join(l for l in r.stdout.splitlines() if l.startswith("FAILED "))
            ok = r.returncode == 1 and t["expect"] in failed_lines
            print("TEETH %s #%d %-70s %s" % (uid, k, t["what"][:70], "caught" if ok else "NOT CAUGHT (rc=%d)" % r.returncode))
            if not ok:
                bad += 1
                print("   expect=%r; FAILED lines were:" % t["expect"])
                for l in failed_lines.splitlines()[:12]: print("     " + l[:260])
            shutil.rmtree(tmp)
    print("teeth: %d mutations, %d not caught" % (total, bad))
    sys.exit(1 if bad else 0)


if __name__ == "__main__":
    main()
