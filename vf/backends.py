"""Back ends: V (Verus), B (native bounded-exhaustive harness), K (Kani)."""
import json, os, re, shutil, subprocess, time, hashlib
from .template import expand, TemplateError
from .extract import LostAnchor, SourceFile
from .rustlex import LexError

VERIF = os.path.dirname(os.path.dirname(os.path.abspath(__file__)))
BUILD = os.environ.get("VERIF_BUILD") or os.path.join(VERIF, "build")   # VERIF_BUILD: a second build tree, so that runs against scratch copies can go side by side
REPO = os.environ.get("VERIF_REPO", "/repo")
NATIVE_TC = "nightly-2025-04-02"

SEMANTIC_V = (
    "postcondition not satisfied", "precondition not satisfied", "possible arithmetic underflow/overflow",
    "assertion failed", "invariant not satisfied", "possible division by zero", "decreases not satisfied",
    "index out of bounds", "recommendation not met", "unable to prove", "might not hold", "failed this postcondition",
    "possible bit shift underflow/overflow", "unreachable", "could not show termination", "loop invariant",
    "precondition", "split assertion failure", "argument bit-width", "cannot show invariant",
    "constructed value may fail to meet its declared type invariant", "possible overflow", "might fail",
)


class Undecided(Exception):
    def __init__(self, unit, reason):
        super().__init__("%s: %s" % (unit, reason))
        self.unit, self.reason = unit, reason


def _env():
    e = dict(os.environ)
    e["CARGO_NET_OFFLINE"] = "true"
    e.pop("RUSTUP_TOOLCHAIN", None)
    return e


def gen(unit_dir, tmpl_name, backend):
    path = os.path.join(unit_dir, tmpl_name)
    return gen_text(unit_dir, open(path, encoding="utf-8").read(), backend)


def gen_text(unit_dir, text, backend):
    SourceFile._cache.clear()
    try:
        exp = expand(text, backend)
    except (LostAnchor, LexError) as e:
        raise Undecided(os.path.basename(unit_dir), "lost anchor: %s" % e)
    except TemplateError as e:
        raise Undecided(os.path.basename(unit_dir), "template error: %s" % e)
    return exp


def _items_meta(exp):
    return [{"selector": g.selector, "src_line": g.src_line, "token_sha": g.hash, "under_contract": g.contract,
             "gen_lines": [g.gen_start_line, g.gen_end_line]} for g in exp.items]


def _enclosing(exp, text, line):
    """name of the extracted item (or template fn) enclosing generated line `line`."""
    for g in exp.items:
        if g.gen_start_line <= line < g.gen_end_line:
            return g.selector.split("::", 1)[1].strip() if "::" in g.selector else g.selector
    # template function: search backwards for `fn name`
    lines = text.split("\n")
    for k in range(min(line, len(lines)) - 1, -1, -1):
        m = re.search(r"\bfn\s+(\w+)", lines[k])
        if m: return "template fn " + m.group(1)
    return "?"



def close_over_callees(template_text, stderr):
    """Closure under same-file callees: when the generated crate does not compile because a name is missing (`cannot find function|value|
    type|macro X in this scope`), look X up as an item of one of the /repo files the template already extracts from and add a
    `//@item` directive for it right after the first directive of that file.  Returns (new_text, [added selectors])."""
    import re as _re
    from .extract import SourceFile, LostAnchor
    names = []
    for m in _re.finditer(r"cannot find (function|value|type|macro|struct, variant or union type|function, tuple struct or tuple variant) `([A-Za-z_][A-Za-z0-9_]*)`", stderr):
        if m.group(2) not in names: names.append(m.group(2))
    lines = template_text.split("\n")
    files = []
    for ln in lines:
        mm = _re.match(r"\s*//@(?:item|fn)\s+(\S+\.rs)\s+::", ln)
        if mm and mm.group(1) not in files: files.append(mm.group(1))
    added = []
    for name in names:
        for f in files:
            try: sf = SourceFile.get(f)
            except LostAnchor: continue
            hit = [it for it in sf.items if it.name == name and it.kind in ("fn", "const", "static", "struct", "enum", "type", "macro_rules", "trait")]
            if len(hit) != 1: continue
            kind = "macro" if hit[0].kind == "macro_rules" else hit[0].kind
            sel = "%s :: %s %s" % (f, kind, name)
            if any(sel in l for l in lines): break
            # insert before the first directive line that extracts from this file
            for i, ln in enumerate(lines):
                if _re.match(r"\s*//@(?:item|fn)\s+" + _re.escape(f) + r"\s+::", ln):
                    lines.insert(i, "//@item " + sel + "   // auto-added: same-file callee")
                    added.append(sel); break
            break
    # methods: `no method named X found for ... T` / `no function or associated item named X found for struct T`: when the template pulls
    # methods of `impl T` one by one (inside an impl wrapper it writes itself), add the missing one next to the first of them
    for m in _re.finditer(r"no (?:method|function or associated item) named `([A-Za-z_][A-Za-z0-9_]*)` found for [^`]*`&?(?:mut )?(?:[A-Za-z_0-9]+::)*([A-Za-z_][A-Za-z0-9_]*)(?:<[^`]*)?`", stderr):
        meth, ty = m.group(1), m.group(2)
        for i, ln in enumerate(lines):
            mm = _re.match(r"(\s*)//@item\s+(\S+\.rs)\s+::\s+(impl(?:<[^:]*>)?\s+%s\b[^:]*?)\s+::\s+fn\s+\w+" % _re.escape(ty), ln)
            if not mm: continue
            sel = "%s :: %s :: fn %s" % (mm.group(2), mm.group(3).strip(), meth)
            if any(sel in l for l in lines): break
            try:
                from .extract import select
                select(sel)
            except Exception:
                continue
            lines.insert(i, mm.group(1) + "//@item " + sel + "   // auto-added: method of the same impl")
            added.append(sel); break
    return "\n".join(lines), added

# --------------------------------------------------------------------------- Verus
def run_verus(unit_id, unit_dir, tmpl_name, rlimit=None, timeout=600):
    exp = gen(unit_dir, tmpl_name, "verus")
    gdir = os.path.join(BUILD, "gen", unit_id)
    os.makedirs(gdir, exist_ok=True)
    base = tmpl_name.replace(".rs.tmpl", "")
    gfile = os.path.join(gdir, "%s_%s.rs" % (unit_id.lower(), base))
    open(gfile, "w", encoding="utf-8").write(exp.text)
    cmd = ["verus", gfile, "--output-json", "--time", "--multiple-errors", "20", "--triggers-mode", "silent",
           "--error-format=json"]
    if rlimit: cmd += ["--rlimit", str(rlimit)]
    t0 = time.time()
    try:
        p = subprocess.run(cmd, cwd=gdir, capture_output=True, text=True, timeout=timeout, env=_env())
    except subprocess.TimeoutExpired:
        raise Undecided(unit_id, "verus timeout after %ds" % timeout)
    wall = time.time() - t0
    try:
        out = json.loads(p.stdout)
    except Exception:
        raise Undecided(unit_id, "verus produced no JSON: " + (p.stderr[-400:] or p.stdout[-400:]))
    vr = out.get("verification-results", {})
    diags = []
    for ln in p.stderr.splitlines():
        ln = ln.strip()
        if ln.startswith("{"):
            try: diags.append(json.loads(ln))
            except Exception: pass
    errs = [d for d in diags if d.get("level") == "error" and not d.get("message", "").startswith("aborting due to")]
    if vr.get("encountered-vir-error") or ("verified" not in vr):
        msg = "; ".join(d.get("message", "") for d in errs)[:500]
        raise Undecided(unit_id, "verus rejected the generated file (non-semantic): " + msg)
    failed = []
    for d in errs:
        msg = d.get("message", "")
        spans = d.get("spans", [])
        prim = [s for s in spans if s.get("is_primary")] or spans
        line = prim[0]["line_start"] if prim else 0
        clause = (prim[0]["text"][0]["text"].strip() if prim and prim[0].get("text") else "")
        if "rlimit" in msg.lower() or "resource limit" in msg.lower():
            raise Undecided(unit_id, "solver resource limit: " + msg)
        if not any(k in msg for k in SEMANTIC_V):
            raise Undecided(unit_id, "verus error not recognised as a proof failure: " + msg[:300])
        # the function whose body failed: the non-primary span ("at the end of the function body") or the primary
        body_line = line
        for s in spans:
            if not s.get("is_primary"): body_line = s["line_start"]
        fn = _enclosing(exp, exp.text, body_line)
        failed.append({"obligation": "%s: %s [%s]" % (fn, msg, clause[:160]), "function": fn, "kind": msg,
                       "clause": clause, "gen_line": line, "rendered": d.get("rendered", "")[:1500]})
    times = out.get("times-ms", {})
    smt_ms = times.get("smt", {}).get("total", 0)
    fb = []
    for m in times.get("smt", {}).get("smt-run-module-times", []):
        for f in m.get("function-breakdown", []):
            fb.append({"function": f["function"].split("::", 1)[-1], "mode": f.get("mode:"), "ms": f.get("time"), "ok": f.get("success")})
    verified, nerr = vr.get("verified", 0), vr.get("errors", 0)
    if nerr and not failed:
        raise Undecided(unit_id, "verus reports %d errors but none was parsed" % nerr)
    clauses = len(re.findall(r"\b(requires|ensures|invariant|decreases)\b", exp.text)) + len(re.findall(r"\bassert\s*\(", exp.text))
    return {"unit": unit_id, "backend": "verus", "file": gfile, "checker_cmd": " ".join(cmd),
            "obligations": verified + nerr, "discharged": verified, "failed": failed, "contract_clauses": clauses,
            "functions": fb, "items": _items_meta(exp), "solver_time_s": round(smt_ms / 1000.0, 3), "wall_s": round(wall, 2),
            "trusted": exp.trusted, "drops": exp.drops}


# --------------------------------------------------------------------------- native (B)
NATIVE_DIR = os.path.join(BUILD, "native")

HELPER_LIB = r'''
//! vfh: helper for bounded-exhaustive contract harnesses (B back end).
use std::collections::BTreeSet;
use std::panic::{self, AssertUnwindSafe};
pub struct Report { pub unit: String, pub cases: u64, pub nontrivial: BTreeSet<u64>, pub nontrivial_n: u64, pub fails: Vec<String>, pub samples: Vec<String>,
    pub bound: String, pub rule: String, pub max_fails: usize, pub fail_count: u64, pub obligations: BTreeSet<String> }
impl Report {
    pub fn new(unit: &str, bound: &str, rule: &str) -> Report {
        panic::set_hook(Box::new(|_| {}));
        Report { unit: unit.into(), cases: 0, nontrivial: BTreeSet::new(), nontrivial_n: 0, fails: vec![], samples: vec![], bound: bound.into(), rule: rule.into(), max_fails: 5, fail_count: 0, obligations: BTreeSet::new() }
    }
    pub fn case(&mut self) { self.cases += 1; }
    /// count a distinct non-trivial case (the caller guarantees distinctness by construction of its enumeration)
    pub fn nontrivial(&mut self) { self.nontrivial_n += 1; }
    pub fn sample(&mut self, s: String) { if self.samples.len() < 3 { self.samples.push(s); } }
    pub fn sample_last(&mut self, s: String) { if self.samples.len() >= 4 { self.samples.pop(); } self.samples.push(s); }
    pub fn obligation(&mut self, name: &str) { if !self.obligations.contains(name) { self.obligations.insert(name.to_string()); } }
    pub fn fail(&mut self, obligation: &str, input: String, detail: String) {
        self.fail_count += 1;
        let n = self.fails.iter().filter(|f| f.contains(&format!("\"obligation\":{}", js(obligation)))).count();
        if n < self.max_fails {
            self.fails.push(format!("{{\"type\":\"fail\",\"unit\":{},\"obligation\":{},\"input\":{},\"detail\":{}}}", js(&self.unit), js(obligation), js(&input), js(&detail)));
        }
    }
    pub fn check(&mut self, obligation: &str, ok: bool, input: impl FnOnce() -> String, detail: impl FnOnce() -> String) {
        self.obligation(obligation);
        if !ok { self.fail(obligation, input(), detail()); }
    }
    /// run `f`, turning a panic into a failed obligation `<name>: no panic`
    pub fn guard<T>(&mut self, name: &str, input: impl Fn() -> String, f: impl FnOnce() -> T) -> Option<T> {
        match panic::catch_unwind(AssertUnwindSafe(f)) {
            Ok(v) => Some(v),
            Err(e) => {
                let msg = if let Some(s) = e.downcast_ref::<&str>() { s.to_string() } else if let Some(s) = e.downcast_ref::<String>() { s.clone() } else { "panic".into() };
                let ob = format!("{}: does not panic", name);
                self.obligation(&ob);
                self.fail(&ob, input(), msg); None
            }
        }
    }
    pub fn finish(self) -> ! {
        for f in &self.fails { println!("{}", f); }
        let samples: Vec<String> = self.samples.iter().map(|s| js(s)).collect();
        let obs: Vec<String> = self.obligations.iter().map(|s| js(s)).collect();
        println!("{{\"type\":\"summary\",\"unit\":{},\"cases\":{},\"distinct_nontrivial\":{},\"fail_count\":{},\"bound\":{},\"rule\":{},\"samples\":[{}],\"obligations\":[{}]}}",
            js(&self.unit), self.cases, self.nontrivial_n, self.fail_count, js(&self.bound), js(&self.rule), samples.join(","), obs.join(","));
        std::process::exit(if self.fail_count > 0 { 1 } else { 0 })
    }
}
pub fn js(s: &str) -> String {
    let mut o = String::from("\"");
    for c in s.chars() {
        match c { '"' => o.push_str("\\\""), '\\' => o.push_str("\\\\"), '\n' => o.push_str("\\n"), '\r' => o.push_str("\\r"), '\t' => o.push_str("\\t"),
            c if (c as u32) < 0x20 => o.push_str(&format!("\\u{:04x}", c as u32)), c => o.push(c) }
    }
    o.push('"'); o
}
pub fn tier() -> String { std::env::var("VERIF_TIER").unwrap_or_else(|_| "quick".into()) }
pub fn thorough() -> bool { tier() == "thorough" }
/// all strings over `alpha` of length <= n, in length-lexicographic order
pub fn strings(alpha: &[char], n: usize) -> Vec<String> {
    let mut out = vec![String::new()];
    let mut layer = vec![String::new()];
    for _ in 0..n {
        let mut next = Vec::with_capacity(layer.len() * alpha.len());
        for s in &layer { for c in alpha { let mut t = s.clone(); t.push(*c); next.push(t); } }
        out.extend(next.iter().cloned());
        layer = next;
    }
    out
}
'''


def _native_cargo_toml(bins):
    repo_toml = open(os.path.join(REPO, "Cargo.toml")).read()
    deps = repo_toml.split("[dependencies]", 1)[1].split("[package.metadata", 1)[0]
    deps = deps.replace('path = "config_proc_macro"', 'path = "%s/config_proc_macro"' % REPO)
    s = '[package]\nname = "vf-native"\nversion = "0.0.0"\nedition = "2021"\n\n[lib]\nname = "vfh"\npath = "src/lib.rs"\n\n'
    for b in bins:
        s += '[[bin]]\nname = "%s"\npath = "src/bin/%s.rs"\n\n' % (b, b)
    s += "[dependencies]" + deps + "\n[profile.release]\noverflow-checks = true\ndebug-assertions = true\nopt-level = 2\ncodegen-units = 16\nincremental = true\npanic = \"unwind\"\n\n[workspace]\n"
    return s


def native_setup(all_bins):
    """(re)create the native workspace skeleton; idempotent, keeps target/."""
    os.makedirs(os.path.join(NATIVE_DIR, "src", "bin"), exist_ok=True)
    _write_if_changed(os.path.join(NATIVE_DIR, "Cargo.toml"), _native_cargo_toml(all_bins))
    _write_if_changed(os.path.join(NATIVE_DIR, "src", "lib.rs"), HELPER_LIB)
    _write_if_changed(os.path.join(NATIVE_DIR, "rust-toolchain"), open(os.path.join(REPO, "rust-toolchain")).read())
    lock = os.path.join(NATIVE_DIR, "Cargo.lock")
    if not os.path.exists(lock):
        shutil.copy(os.path.join(REPO, "Cargo.lock"), lock)
    os.makedirs(os.path.join(NATIVE_DIR, ".cargo"), exist_ok=True)
    _write_if_changed(os.path.join(NATIVE_DIR, ".cargo", "config.toml"), "[net]\noffline = true\n[build]\nrustflags = [\"-Awarnings\"]\n")
    for b in all_bins:
        f = os.path.join(NATIVE_DIR, "src", "bin", b + ".rs")
        if not os.path.exists(f):
            open(f, "w").write("fn main() {}\n")


def _write_if_changed(path, text):
    try:
        if open(path, encoding="utf-8").read() == text: return False
    except OSError:
        pass
    open(path, "w", encoding="utf-8").write(text)
    return True


def all_native_bins():
    bins = []
    udir = os.path.join(VERIF, "units")
    for u in sorted(os.listdir(udir)):
        mf = os.path.join(udir, u, "unit.json")
        if os.path.exists(mf):
            for n in json.load(open(mf)).get("native", []):
                bins.append(n["bin"])
    return bins


def run_native(unit_id, unit_dir, spec, tier, timeout=None):
    """spec: {"bin":..., "tmpl":..., "floor": {"quick": n, "thorough": n}}"""
    tmpl_text = open(os.path.join(unit_dir, spec["tmpl"]), encoding="utf-8").read()
    auto_added = []
    exp = gen_text(unit_dir, tmpl_text, "native")
    native_setup(all_native_bins())
    f = os.path.join(NATIVE_DIR, "src", "bin", spec["bin"] + ".rs")
    _write_if_changed(f, exp.text)
    env = _env()
    env["VERIF_TIER"] = tier
    env["RUST_MIN_STACK"] = "67108864"
    sysroot = subprocess.run(["rustc", "+" + NATIVE_TC, "--print", "sysroot"], capture_output=True, text=True).stdout.strip()
    env["LD_LIBRARY_PATH"] = sysroot + "/lib:" + env.get("LD_LIBRARY_PATH", "")
    t0 = time.time()
    for _round in range(4):
        b = subprocess.run(["cargo", "+" + NATIVE_TC, "build", "--release", "--offline", "--bin", spec["bin"]],
                           cwd=NATIVE_DIR, capture_output=True, text=True, env=env)
        if b.returncode == 0: break
        tmpl_text, added = close_over_callees(tmpl_text, b.stderr)
        if not added: break
        auto_added += added
        exp = gen_text(unit_dir, tmpl_text, "native")
        _write_if_changed(f, exp.text)
    if auto_added:
        exp.drops.append("closure under same-file callees: auto-added " + ", ".join(auto_added))
    if b.returncode != 0:
        errs = [l for l in b.stderr.splitlines() if l.startswith("error")]
        raise Undecided(unit_id, "native harness does not compile (non-semantic): " + " | ".join(errs[:4]) + " ... " + b.stderr[-600:])
    build_s = time.time() - t0
    exe = os.path.join(NATIVE_DIR, "target", "release", spec["bin"])
    t1 = time.time()
    to = timeout or (600 if tier == "quick" else 3600)
    try:
        p = subprocess.run([exe], cwd=NATIVE_DIR, capture_output=True, text=True, env=env, timeout=to)
    except subprocess.TimeoutExpired:
        raise Undecided(unit_id, "native harness timeout after %ds" % to)
    run_s = time.time() - t1
    summary, fails = None, []
    for ln in p.stdout.splitlines():
        if ln.startswith("{"):
            try: d = json.loads(ln)
            except Exception: continue
            if d.get("type") == "summary": summary = d
            elif d.get("type") == "fail": fails.append(d)
    if summary is None:
        raise Undecided(unit_id, "native harness %s gave no summary (rc=%s): %s" % (spec["bin"], p.returncode, (p.stderr or p.stdout)[-500:]))
    floor = spec.get("floor", {}).get(tier, 2)
    if summary["distinct_nontrivial"] < floor:
        raise Undecided(unit_id, "vacuity guard: distinct_nontrivial %d < floor %d" % (summary["distinct_nontrivial"], floor))
    failed = []
    seen = {}
    for d in fails:
        failed.append({"obligation": d["obligation"], "function": d["obligation"].split(": ")[0], "kind": "bounded contract check failed",
                       "input": d["input"], "detail": d["detail"]})
    return {"unit": unit_id, "backend": "native", "bin": spec["bin"], "file": f,
            "checker_cmd": "cargo +%s build --release --offline --bin %s && target/release/%s  (cwd %s, VERIF_TIER=%s)" % (NATIVE_TC, spec["bin"], spec["bin"], NATIVE_DIR, tier),
            "evaluations": summary["cases"], "distinct_nontrivial": summary["distinct_nontrivial"], "bound": summary["bound"], "rule": summary["rule"],
            "samples": summary["samples"], "exhaustive": True, "b_obligations": summary.get("obligations", []),
            "failed": failed, "fail_count": summary.get("fail_count", len(failed)), "items": _items_meta(exp), "wall_s": round(build_s + run_s, 2), "build_s": round(build_s, 2),
            "trusted": exp.trusted, "drops": exp.drops}


# --------------------------------------------------------------------------- Kani (K)
KANI_DIR = os.path.join(BUILD, "kani")


def run_kani(unit_id, unit_dir, spec, tier, timeout=None):
    """spec: {"crate": name, "tmpl": ..., "harnesses": [..], "stubs_expected": [...]}"""
    exp = gen(unit_dir, spec["tmpl"], "kani")
    cdir = os.path.join(KANI_DIR, spec["crate"])
    os.makedirs(os.path.join(cdir, "src"), exist_ok=True)
    os.makedirs(os.path.join(cdir, ".cargo"), exist_ok=True)
    _write_if_changed(os.path.join(cdir, "Cargo.toml"),
                      '[package]\nname = "%s"\nversion = "0.0.0"\nedition = "2021"\n\n[dependencies]\n\n[workspace]\n\n[lints.rust]\nunexpected_cfgs = { level = "allow" }\n' % spec["crate"])
    _write_if_changed(os.path.join(cdir, ".cargo", "config.toml"), "[net]\noffline = true\n")
    _write_if_changed(os.path.join(cdir, "src", "lib.rs"), exp.text)
    env = _env()
    harnesses = spec["harnesses"]
    to = timeout or (300 if tier == "quick" else 1200)
    cmd = ["cargo", "kani", "-Z", "function-contracts", "-Z", "stubbing", "--output-format", "terse", "-j", "8"]
    for h in harnesses: cmd += ["--harness", h]
    if spec.get("exact", True): cmd += ["--exact"]
    t0 = time.time()
    try:
        p = subprocess.run(["timeout", str(to)] + cmd, cwd=cdir, capture_output=True, text=True, env=env)
    except Exception as e:
        raise Undecided(unit_id, "kani failed to run: %s" % e)
    wall = time.time() - t0
    out = p.stdout + "\n" + p.stderr
    if p.returncode == 124:
        raise Undecided(unit_id, "kani timeout after %ds" % to)
    # parse per-harness results (output of parallel runs is prefixed "Thread k:")
    res = {}
    cur_by_thread = {}
    th = None
    failed = []
    checks_total = 0
    for raw in out.splitlines():
        ln = raw
        m = re.match(r"^Thread (\d+): ?(.*)$", ln)
        if m:
            th = m.group(1); ln = m.group(2)
        cur = cur_by_thread.get(th)
        m = re.match(r"^Checking harness (\S+?)\.\.\.", ln)
        if m:
            cur_by_thread[th] = m.group(1); res.setdefault(m.group(1), {"status": None, "failed_checks": [], "checks": 0, "covers": None}); continue
        if cur is None: continue
        m = re.match(r"^VERIFICATION:- (\w+)", ln)
        if m: res[cur]["status"] = m.group(1); continue
        m = re.match(r"^\s*\*\* (\d+) of (\d+) failed", ln)
        if m: res[cur]["checks"] = int(m.group(2)); continue
        m = re.match(r"^\s*\*\* (\d+) of (\d+) cover properties satisfied", ln)
        if m: res[cur]["covers"] = (int(m.group(1)), int(m.group(2))); continue
        m = re.match(r"^Failed Checks: (.*)$", ln)
        if m: res[cur]["failed_checks"].append(m.group(1)); continue
    if not res or any(h.split("::")[-1] not in [k.split("::")[-1] for k in res] for h in harnesses):
        errs = [l for l in out.splitlines() if l.startswith("error")]
        raise Undecided(unit_id, "kani did not run all harnesses (compile error?): " + " | ".join(errs[:5]) + out[-500:])
    for h, r in res.items():
        if r["covers"] and r["covers"][0] < r["covers"][1]:
            raise Undecided(unit_id, "vacuity guard: kani cover property unsatisfied in %s" % h)
    verified = 0
    for h, r in res.items():
        checks_total += r["checks"]
        if r["status"] == "SUCCESSFUL": verified += 1
        elif r["status"] == "FAILED":
            fc = r["failed_checks"] or ["(see output)"]
            unwind = [c for c in fc if "unwinding assertion" in c]
            if unwind:
                raise Undecided(unit_id, "kani unwinding assertion failed in %s" % h)
            failed.append({"obligation": "%s: %s" % (h, "; ".join(fc)[:300]), "function": h, "kind": "kani check failed", "detail": "; ".join(fc)})
        else:
            raise Undecided(unit_id, "kani harness %s has no verdict" % h)
    if failed:
        _kani_playback(cdir, spec, failed, env, exp.text)
    stubs = re.findall(r"- Stub: (\S+)", out)
    return {"unit": unit_id, "backend": "kani", "crate": spec["crate"], "file": os.path.join(cdir, "src", "lib.rs"),
            "checker_cmd": " ".join(cmd) + "  (cwd %s)" % cdir, "obligations": len(res), "discharged": verified, "cbmc_checks": checks_total,
            "harnesses": sorted(res.keys()), "failed": failed, "items": _items_meta(exp), "wall_s": round(wall, 2), "solver_time_s": round(wall, 2),
            "trusted": exp.trusted + ["kani stub: " + s for s in stubs], "drops": exp.drops}


def _kani_playback(cdir, spec, failed, env, lib_text):
    """For each failed harness: let Kani write its counter-example as a unit test (concrete playback), run it natively on the
    extracted real code, and attach values + outcome to the failure (this is the replay of the verifier's counter-example)."""
    lib = os.path.join(cdir, "src", "lib.rs")
    for fl in failed:
        h = fl["function"]
        try:
            subprocess.run(["timeout", "300", "cargo", "kani", "-Z", "function-contracts", "-Z", "stubbing", "-Z", "concrete-playback",
                            "--concrete-playback=inplace", "--harness", h, "--exact"], cwd=cdir, capture_output=True, text=True, env=env)
            txt = open(lib, encoding="utf-8").read()
            tests = re.findall(r"fn (kani_concrete_playback_\w+)\(\) \{\s*let concrete_vals: Vec<Vec<u8>> = vec!\[(.*?)\];", txt, re.S)
            p = subprocess.run(["timeout", "300", "cargo", "kani", "playback", "-Z", "concrete-playback"], cwd=cdir, capture_output=True, text=True, env=env)
            out = p.stdout + p.stderr
            failing = re.findall(r"^    (?:\w+::)*(kani_concrete_playback_\w+)$", out, re.M)
            for name, vals in tests:
                if name in failing:
                    comments = re.findall(r"//\s*(.+)", vals)
                    fl["input"] = "kani counter-example (values of kani::any() in call order): " + ", ".join(c.strip() for c in comments)
                    m = re.search(r"panicked at [^\n]*\n([^\n]*)", out)
                    fl["detail"] = "concrete playback on the natively compiled extracted code FAILS: " + (m.group(1).strip() if m else "test failed") + " | " + fl.get("detail", "")
                    break
        except Exception as e:
            fl["detail"] = fl.get("detail", "") + " (playback failed: %s)" % e
        finally:
            open(lib, "w", encoding="utf-8").write(lib_text)
