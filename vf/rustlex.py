"""A small Rust lexer: enough to slice items verbatim out of rustfmt's sources.

Token kinds: ws, lcomment, bcomment, ident, lifetime, str (all string-ish literals incl. raw/byte/c),
char, num, punct.  Every character of the input belongs to exactly one token, so
"".join(t.text for t in lex(s)) == s  (checked by `selftest`).
"""
import re
from collections import namedtuple

Tok = namedtuple("Tok", "kind text pos")  # pos = byte offset into the (str) source

_ident_start = re.compile(r"[A-Za-z_\u0080-\U0010ffff]")
_ident = re.compile(r"[A-Za-z_\u0080-\U0010ffff][A-Za-z0-9_\u0080-\U0010ffff]*")
_num = re.compile(r"[0-9][0-9a-zA-Z_]*(\.[0-9][0-9a-zA-Z_]*)?([eE][+-]?[0-9_]+)?[a-zA-Z0-9_]*")
_ws = re.compile(r"\s+")
_raw_prefix = re.compile(r"(br|cr|r)(#*)\"")
_str_prefix = re.compile(r"(b|c)?\"")
_PUNCT3 = ("<<=", ">>=", "...", "..=")
_PUNCT2 = ("::", "->", "=>", "==", "!=", "<=", ">=", "&&", "||", "+=", "-=", "*=", "/=", "%=", "^=", "&=", "|=",
           "<<", ">>", "..")


class LexError(Exception):
    pass


def lex(s):
    toks = []
    i, n = 0, len(s)
    while i < n:
        c = s[i]
        m = _ws.match(s, i)
        if m:
            toks.append(Tok("ws", m.group(), i)); i = m.end(); continue
        if s.startswith("//", i):
            j = s.find("\n", i)
            j = n if j < 0 else j
            toks.append(Tok("lcomment", s[i:j], i)); i = j; continue
        if s.startswith("/*", i):
            depth, j = 1, i + 2
            while j < n and depth:
                if s.startswith("/*", j): depth += 1; j += 2
                elif s.startswith("*/", j): depth -= 1; j += 2
                else: j += 1
            if depth: raise LexError("unterminated block comment at %d" % i)
            toks.append(Tok("bcomment", s[i:j], i)); i = j; continue
        m = _raw_prefix.match(s, i)
        if m:
            close = '"' + m.group(2)
            j = s.find(close, m.end())
            if j < 0: raise LexError("unterminated raw string at %d" % i)
            j += len(close)
            toks.append(Tok("str", s[i:j], i)); i = j; continue
        m = _str_prefix.match(s, i)
        if m:
            j = m.end()
            while j < n and s[j] != '"':
                j += 2 if s[j] == "\\" else 1
            if j >= n: raise LexError("unterminated string at %d" % i)
            j += 1
            toks.append(Tok("str", s[i:j], i)); i = j; continue
        if c == "'" or (c == "b" and s.startswith("b'", i)):
            k = i + (2 if c == "b" else 1)
            # char literal: '\...' or 'x' followed by '
            if k < n and s[k] == "\\":
                j = k + 2
                while j < n and s[j] != "'": j += 1
                toks.append(Tok("char", s[i:j + 1], i)); i = j + 1; continue
            if k + 1 < n and s[k + 1] == "'" and s[k] != "'":
                toks.append(Tok("char", s[i:k + 2], i)); i = k + 2; continue
            if c == "'":
                m = _ident.match(s, k)
                if m:
                    toks.append(Tok("lifetime", s[i:m.end()], i)); i = m.end(); continue
            raise LexError("bad quote at %d: %r" % (i, s[i:i + 10]))
        m = _ident.match(s, i)
        if m:
            # raw identifier r#name
            if m.group() == "r" and s.startswith("r#", i):
                m2 = _ident.match(s, i + 2)
                if m2:
                    toks.append(Tok("ident", s[i:m2.end()], i)); i = m2.end(); continue
            toks.append(Tok("ident", m.group(), i)); i = m.end(); continue
        if c.isdigit():
            m = _num.match(s, i)
            txt = m.group()
            # `1..2` must not swallow the dots; `1.foo()` neither
            if "." in txt:
                d = txt.index(".")
                if d + 1 >= len(txt) or not txt[d + 1].isdigit():
                    txt = txt[:d]
            # re-match without fraction when the fraction was rejected
            if txt != m.group():
                m2 = re.match(r"[0-9][0-9a-zA-Z_]*", s[i:])
                txt = m2.group()
            toks.append(Tok("num", txt, i)); i += len(txt); continue
        for p in _PUNCT3:
            if s.startswith(p, i):
                toks.append(Tok("punct", p, i)); i += 3; break
        else:
            for p in _PUNCT2:
                if s.startswith(p, i):
                    toks.append(Tok("punct", p, i)); i += 2; break
            else:
                toks.append(Tok("punct", c, i)); i += 1
    return toks


TRIVIA = ("ws", "lcomment", "bcomment")


def significant(toks):
    return [t for t in toks if t.kind not in TRIVIA]


def norm(text):
    """Normalised token stream of a piece of Rust text (trivia removed)."""
    return [t.text for t in lex(text) if t.kind not in TRIVIA]


def selftest(paths):
    for p in paths:
        s = open(p, encoding="utf-8").read()
        t = lex(s)
        assert "".join(x.text for x in t) == s, p
        depth = 0
        for x in t:
            if x.kind == "punct":
                if x.text in "([{": depth += 1
                elif x.text in ")]}": depth -= 1
        assert depth == 0, (p, depth)
    return True


if __name__ == "__main__":
    import sys, glob
    ps = sys.argv[1:] or glob.glob("/repo/src/**/*.rs", recursive=True)
    selftest(ps)
    print("ok", len(ps))
