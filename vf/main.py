#!/usr/bin/env python3
"""vf — contract-based verification driver for rustfmt (see /verif/DESIGN.md).

  vf check <Cxx> [--tier quick|thorough]     run every unit the property depends on, write evidence
  vf unit <Uxx> [--tier ..]                  run one unit and print its result (development)
  vf replay <replay.json>                    re-run the unit named by a replay file and show the failing obligation
  vf setup                                   pre-build the native harness workspace (MANIFEST.setup_cmd)
  vf gen <Uxx>                               only generate the files (development)
"""
import sys, os, json, time, argparse, concurrent.futures as cf, re, traceback
sys.path.insert(0, os.path.dirname(os.path.dirname(os.path.abspath(__file__))))
from vf import backends as B
from vf.backends import Undecided, VERIF, BUILD
from vf.properties import PROPS

UNITS_DIR = os.path.join(VERIF, "units")
# evidence is only ever written to /verif/evidence by runs against /repo itself; runs against a scratch copy (VERIF_REPO) go elsewhere
EVID_DIR = os.environ.get("VERIF_EVIDENCE_DIR") or (os.path.join(VERIF, "evidence") if os.environ.get("VERIF_REPO", "/repo") == "/repo" else os.path.join(BUILD, "evidence-scratch"))
REPLAY_DIR = os.path.join(VERIF, "replays")
KNOWN = os.path.join(VERIF, "known_findings.txt")


def unit_dir(uid):
    for d in sorted(os.listdir(UNITS_DIR)):
        if d.split("_")[0] == uid: return os.path.join(UNITS_DIR, d)
    raise SystemExit("no such unit " + uid)


def unit_manifest(uid):
    return json.load(open(os.path.join(unit_dir(uid), "unit.json")))


def run_unit(uid, tier, only=None, undecided_out=None):
    """returns list of backend results (dicts) or raises Undecided; with undecided_out (a list) a back end that is undecided is recorded there
    as (uid, reason) and the other back ends of the unit still run"""
    ud = unit_dir(uid)
    mf = unit_manifest(uid)
    # VF_UNIT_CACHE (development tools only: tools/try_seed.sh, tools/run_benign.sh; never set by a registered command): a unit's result is reused
    # when the same unit ran at the same tier on a byte-identical tree with byte-identical machinery (content hash of every file of the tree
    # outside target/ and .git/, of the unit directory, of vf/*.py and of known inputs of the harnesses under units/)
    ck = None
    if os.environ.get("VF_UNIT_CACHE") and only is None:
        ck = os.path.join(os.environ["VF_UNIT_CACHE"], "%s-%s-%s.json" % (uid, tier, _tree_key(ud)))
        if os.path.exists(ck):
            d = json.load(open(ck))
            if undecided_out is not None: undecided_out.extend(tuple(x) for x in d["undecided"])
            elif d["undecided"]: raise Undecided(uid, d["undecided"][0][1])
            return d["results"]
    und_local = []
    jobs = []
    for v in mf.get("verus", []):
        if only in (None, "verus"): jobs.append(("verus", v))
    for n in mf.get("native", []):
        if only in (None, "native"): jobs.append(("native", n))
    for k in mf.get("kani", []):
        if only in (None, "kani"): jobs.append(("kani", k))
    for sc in mf.get("scan", []):
        if only in (None, "scan"): jobs.append(("scan", sc))
    results = []
    for kind, spec in jobs:
      try:
          if kind == "verus":
              name = spec if isinstance(spec, str) else spec["tmpl"]
              r = B.run_verus(uid, ud, name, rlimit=(None if isinstance(spec, str) else spec.get("rlimit")))
              minv = mf.get("min_verified", {}).get(name, 1)
              if r["obligations"] < minv:
                  raise Undecided(uid, "vacuity guard: verus reports %d obligations < committed minimum %d" % (r["obligations"], minv))
          elif kind == "native":
              r = B.run_native(uid, ud, spec, tier)
          elif kind == "scan":
              from vf.scans import run_scan
              r = run_scan(uid, spec)
          else:
              r = B.run_kani(uid, ud, spec, tier)
          allowed = mf.get("trusted_allow", [])
          missing = [re.sub(r"@gen:\d+ ", "", t) for t in r["trusted"] if re.sub(r"@gen:\d+ ", "", t) not in allowed]
          if missing:
              raise Undecided(uid, "trusted constructs not on the unit's allow-list: %s" % json.dumps(sorted(set(missing))))
          r["title"] = mf.get("title", "")
          results.append(r)
      except Undecided as e:
        if undecided_out is None: raise
        undecided_out.append((uid, "%s back end: %s" % (kind, e.reason)))
        und_local.append((uid, "%s back end: %s" % (kind, e.reason)))
    if ck:
        os.makedirs(os.path.dirname(ck), exist_ok=True)
        json.dump({"results": results, "undecided": und_local}, open(ck + ".tmp", "w")); os.replace(ck + ".tmp", ck)
    return results


_TREE_KEYS = {}


def _tree_key(ud):
    import hashlib
    repo = os.environ.get("VERIF_REPO", "/repo")
    def h_dir(root, skip=()):
        h = hashlib.sha256()
        for dp, dn, fn in os.walk(root):
            dn[:] = sorted(x for x in dn if x not in skip)
            for f in sorted(fn):
                p = os.path.join(dp, f)
                h.update(os.path.relpath(p, root).encode()); h.update(b"\0")
                try: h.update(open(p, "rb").read())
                except OSError: pass
        return h.hexdigest()
    if repo not in _TREE_KEYS: _TREE_KEYS[repo] = h_dir(repo, skip=("target", ".git"))
    vf = h_dir(os.path.join(VERIF, "vf"), skip=("__pycache__",))
    return hashlib.sha256((_TREE_KEYS[repo] + h_dir(ud) + vf + h_dir(os.path.join(VERIF, "units", "U43_corpus"))).encode()).hexdigest()[:24]


def load_known():
    known, fixed = [], []
    if os.path.exists(KNOWN):
        for ln in open(KNOWN):
            ln = ln.strip()
            if ln.startswith("finding:"):
                d = {}
                body = ln[len("finding:"):].strip()
                if body.startswith("{"):   # JSON form, for obligations / inputs that hold double quotes
                    d = json.loads(body)
                    known.append({"property": d["property"], "unit": d["unit"], "obligation": d["obligation"], "input": d["input"], "what": d.get("what", "")})
                    continue
                m = re.match(r"property=(\S+)\s+unit=(\S+)\s+obligation=\"(.*?)\"\s+input=\"(.*?)\"\s*(.*)$", body)
                if m:
                    known.append({"property": m.group(1), "unit": m.group(2), "obligation": m.group(3), "input": m.group(4), "what": m.group(5)})
            elif ln.startswith("fixed:"):
                fixed.append(ln)
    return known, fixed


def check(pid, tier):
    t0 = time.time()
    prop = PROPS[pid]
    os.makedirs(EVID_DIR, exist_ok=True); os.makedirs(REPLAY_DIR, exist_ok=True)
    seed = int(os.environ.get("VERIF_SEED", "0") or 0)
    results, undecided = [], []
    unit_specs = [u if isinstance(u, dict) else {"unit": u} for u in prop["units"]]
    units = [u["unit"] for u in unit_specs]
    filt = {u["unit"]: u for u in unit_specs}
    with cf.ThreadPoolExecutor(max_workers=min(6, len(units))) as ex:
        futs = {ex.submit(run_unit, u, tier, None, undecided): u for u in units}
        for f in cf.as_completed(futs):
            u = futs[f]
            try:
                for r in f.result():
                    # a property may use only part of a unit's obligations
                    only, excl = filt[u].get("only"), filt[u].get("exclude")
                    keep = lambda name: (not only or re.search(only, name)) and not (excl and re.search(excl, name))
                    r["failed"] = [x for x in r["failed"] if keep(x["obligation"])]
                    if "b_obligations" in r: r["b_obligations"] = [x for x in r["b_obligations"] if keep(x)]
                    if only or excl:
                        r["obligation_filter"] = {"only": only, "exclude": excl}
                        if r["backend"] in ("kani", "verus"):
                            # a filtered property counts only the proof obligations whose name passes the filter
                            names = r.get("harnesses") or [f["function"] for f in r.get("functions", [])]
                            kept = [n for n in names if keep(n)]
                            if not kept and not r["failed"]: continue
                            failed_names = len(r["failed"])
                            r["obligations"] = len(kept); r["discharged"] = max(0, len(kept) - failed_names)
                            if r.get("harnesses"): r["harnesses"] = kept
                    results.append(r)
            except Undecided as e:
                undecided.append((u, e.reason))
            except Exception as e:
                undecided.append((u, "internal error: %s\n%s" % (e, traceback.format_exc()[-800:])))
    results.sort(key=lambda r: (r["unit"], r["backend"]))
    known, _fixed = load_known()
    violations, known_hits = [], []
    for r in results:
        # one violation per failed obligation; further failing inputs of the same obligation are attached to it
        by_ob = {}
        for fl in r["failed"]:
            if fl["obligation"] in by_ob and not _is_known(known, pid, r["unit"], fl):
                by_ob[fl["obligation"]].setdefault("more_inputs", []).append({"input": fl.get("input"), "detail": fl.get("detail")})
                continue
            if not _is_known(known, pid, r["unit"], fl):
                by_ob[fl["obligation"]] = fl
        r["failed_all"] = r["failed"]
        r["failed"] = [fl for fl in r["failed"] if _is_known(known, pid, r["unit"], fl) or by_ob.get(fl["obligation"]) is fl]
        for fl in r["failed"]:
            hit = None
            for k in known:
                if k["property"] == pid and k["unit"] == r["unit"] and k["obligation"] == fl["obligation"] and k["input"] == fl.get("input", ""):
                    hit = k
            if hit: known_hits.append((r, fl, hit))
            else: violations.append((r, fl))
    # counter-examples for V/K failures: a native failure of the same unit supplies the failing input
    vio_lines = []
    seen_files = set()
    for r, fl in violations:
        cex = None
        if "input" in fl:
            cex = {"from": r["backend"], "input": fl["input"], "detail": fl.get("detail", "")}
        else:
            twins = [r["unit"]] + unit_manifest(r["unit"]).get("twin_units", [])
            for r2, fl2 in violations:
                if r2["unit"] in twins and "input" in fl2 and _same_fn(fl2["function"], fl["function"]):
                    cex = {"from": r2["backend"] + " twin (real function text, natively compiled)", "obligation": fl2["obligation"], "input": fl2["input"], "detail": fl2.get("detail", "")}
                    break
            if cex is None:
                for r2, fl2 in violations:
                    if r2["unit"] in twins and "input" in fl2:
                        cex = {"from": r2["backend"] + " twin (bounded check of the enclosing real function)", "obligation": fl2["obligation"], "input": fl2["input"], "detail": fl2.get("detail", "")}
                        break
        slug = re.sub(r"[^A-Za-z0-9]+", "_", fl["obligation"])[:80].strip("_")
        path = os.path.join(REPLAY_DIR, "%s-%s-%s-%s.json" % (pid, r["unit"], r["backend"], slug))
        k = 1
        while path in seen_files:
            k += 1; path = path[:-5] + "_%d.json" % k
        seen_files.add(path)
        json.dump({"property": pid, "unit": r["unit"], "backend": r["backend"], "obligation": fl["obligation"],
                   "property_sentence": prop["statement_clauses"].get(r["unit"], prop["title"]),
                   "verifier_output": fl.get("rendered") or fl.get("detail", ""), "generated_file": r.get("file"),
                   "checker_cmd": r.get("checker_cmd"), "counterexample": cex, "more_failing_inputs": fl.get("more_inputs", []),
                   "items": r["items"], "replay": "python3 /verif/vf/main.py replay " + path}, open(path, "w"), indent=1)
        vio_lines.append("VIOLATION property=%s replay=%s%s" % (pid, path, "" if cex else " no-failing-input-found"))
    # evidence
    ev = build_evidence(pid, prop, tier, seed, results, undecided, violations, known_hits, time.time() - t0)
    json.dump(ev, open(os.path.join(EVID_DIR, pid + ".json"), "w"), indent=1)
    for r, fl, k in known_hits:
        print("KNOWN-FINDING: property=%s %s input=%s (%s)" % (pid, fl["obligation"], fl.get("input", ""), k["what"]))
    for u, reason in undecided:
        print("UNDECIDED property=%s unit=%s reason=%s" % (pid, u, reason.replace("\n", " ")[:700]))
    for l in vio_lines[:20]:
        print(l)
    nV = sum(r.get("discharged", 0) for r in results if r["backend"] in ("verus", "kani"))
    nO = sum(r.get("obligations", 0) for r in results if r["backend"] in ("verus", "kani"))
    nB = sum(r.get("evaluations", 0) for r in results if r["backend"] == "native")
    units = [str(u) for u in units]
    print("%s tier=%s units=%s proof-obligations=%d/%d bounded-cases=%d violations=%d known=%d undecided=%d wall=%.1fs" %
          (pid, tier, ",".join(units), nV, nO, nB, len(violations), len(known_hits), len(undecided), time.time() - t0))
    if violations: return 1
    if undecided: return 2
    return 0


def _is_known(known, pid, unit, fl):
    return any(k["property"] == pid and k["unit"] == unit and k["obligation"] == fl["obligation"] and k["input"] == fl.get("input", "") for k in known)


def _same_fn(a, b):
    na = re.findall(r"\w+", a); nb = re.findall(r"\w+", b)
    return bool(na and nb and na[-1] == nb[-1])


def build_evidence(pid, prop, tier, seed, results, undecided, violations, known_hits, wall):
    V = [r for r in results if r["backend"] in ("verus", "kani")]
    N = [r for r in results if r["backend"] == "native"]
    S = [r for r in results if r["backend"] == "scan"]
    obligations = sum(r["obligations"] for r in V)
    discharged = sum(r["discharged"] for r in V)
    trusted = []
    for r in results:
        for t in r["trusted"]:
            s = "%s/%s: %s" % (r["unit"], r["backend"], t)
            if s not in trusted: trusted.append(s)
    trusted += [t for t in prop.get("trusted_base", [])]
    drops = []
    for r in results:
        for d in r["drops"]:
            if d not in drops: drops.append(d)
    samples = []
    for r in V:
        names = [f["function"] for f in r.get("functions", []) if f.get("mode") in ("exec", "proof")][:6] or r.get("harnesses", [])[:6]
        samples.append({"unit": r["unit"], "backend": r["backend"], "obligations_discharged_for": names})
    for r in N:
        samples.append({"unit": r["unit"], "backend": "native", "cases": r["samples"]})
    cov = {
        "obligations": obligations, "discharged": discharged,
        "checker_cmd": " ;; ".join(r["checker_cmd"] for r in results) or "none",
        "trusted_base": trusted,
        "solver_time_s": round(sum(r.get("solver_time_s", 0) for r in V), 3),
        "evaluations": sum(r["evaluations"] for r in N),
        "distinct_nontrivial": sum(r["distinct_nontrivial"] for r in N),
        "rule": " || ".join("%s: %s [bound: %s]" % (r["unit"], r["rule"], r["bound"]) for r in N) or "no bounded unit",
        "exhaustive": bool(N) and all(r["exhaustive"] for r in N),
        "samples": samples or [{"note": "no unit produced a result"}],
        "explanation": prop["explanation"],
        "clauses": prop["clauses"],
        "units": [{
            "unit": r["unit"], "title": r.get("title"), "backend": r["backend"],
            "label": {"verus": "proved (unbounded)", "kani": "proved (complete, loop-free full-domain)", "native": "bounded (exhaustive within stated bound; NOT counted as proved)", "scan": "mechanical frame scan (token level; not a proof obligation)"}[r["backend"]],
            "scan": r.get("scan"), "scanned": r.get("scanned"), "obligation_filter": r.get("obligation_filter"),
            "obligations": r.get("obligations"), "discharged": r.get("discharged"),
            "evaluations": r.get("evaluations"), "distinct_nontrivial": r.get("distinct_nontrivial"), "bound": r.get("bound"),
            "b_obligations": r.get("b_obligations"), "harnesses": r.get("harnesses"), "contract_clauses": r.get("contract_clauses"),
            "functions_under_contract": [i for i in r["items"] if i["under_contract"]] if r["backend"] == "verus" else r["items"],
            "shims_and_context_items": [i["selector"] for i in r["items"] if not i["under_contract"]] if r["backend"] == "verus" else [],
            "per_function": r.get("functions"), "wall_s": r["wall_s"], "solver_time_s": r.get("solver_time_s"),
            "failed": [f["obligation"] for f in r["failed"]],
        } for r in results],
        "frame_scans": [{"scan": r["scan"], "sites": r["scan_sites"], "rule": r["rule"], "hits": len(r["failed"])} for r in S],
        "extraction_drops": drops,
        "undecided": [{"unit": u, "reason": reason[:500]} for u, reason in undecided],
        "known_findings_hit": [{"obligation": fl["obligation"], "input": fl.get("input")} for _, fl, _ in known_hits],
        "unverified_surroundings": prop.get("surroundings", ""),
    }
    return {"property_id": pid, "tier": tier, "seed": seed, "level": prop["level"], "coverage": cov,
            "assumptions": prop.get("assumptions", []) + ["Verus/Z3, Kani/CBMC and rustc are sound", "the extractor (vf/rustlex.py, vf/extract.py, vf/template.py) copies item text faithfully; ghost-only splice check passed on this run"],
            "wall_s": round(wall, 2), "violations": len(violations)}


def main():
    ap = argparse.ArgumentParser()
    ap.add_argument("cmd")
    ap.add_argument("arg", nargs="?")
    ap.add_argument("--tier", default=os.environ.get("VERIF_TIER", "quick"))
    ap.add_argument("--only", default=None)
    a = ap.parse_args()
    if a.cmd == "check":
        sys.exit(check(a.arg, a.tier))
    if a.cmd == "unit":
        try:
            rs = run_unit(a.arg, a.tier, a.only)
        except Undecided as e:
            print("UNDECIDED", e); sys.exit(2)
        bad = 0
        for r in rs:
            r2 = dict(r); r2.pop("items", None); r2.pop("functions", None)
            for f in r["failed"]:
                print("FAILED %s :: input=%s" % (f.get("obligation"), str(f.get("input"))[:(10**6 if os.environ.get("VF_FULL_INPUT") else 300)]))
            print(json.dumps(r2, indent=1)[:6000])
            bad += len(r["failed"])
        sys.exit(1 if bad else 0)
    if a.cmd == "gen":
        ud = unit_dir(a.arg); mf = unit_manifest(a.arg)
        for v in mf.get("verus", []):
            e = B.gen(ud, v if isinstance(v, str) else v["tmpl"], "verus"); print(e.text)
        sys.exit(0)
    if a.cmd == "setup":
        bins = B.all_native_bins()
        B.native_setup(bins)
        import subprocess
        env = B._env()
        # generate every harness so that one cargo build compiles all of them (warms the dependency cache)
        for d in sorted(os.listdir(UNITS_DIR)):
            mfp = os.path.join(UNITS_DIR, d, "unit.json")
            if not os.path.exists(mfp): continue
            for n in json.load(open(mfp)).get("native", []):
                try:
                    e = B.gen(os.path.join(UNITS_DIR, d), n["tmpl"], "native")
                    B._write_if_changed(os.path.join(B.NATIVE_DIR, "src", "bin", n["bin"] + ".rs"), e.text)
                except Undecided as ex:
                    print("setup: cannot generate", n["bin"], ex)
        p = subprocess.run(["cargo", "+" + B.NATIVE_TC, "build", "--release", "--offline", "--bins"], cwd=B.NATIVE_DIR, env=env)
        sys.exit(0 if p.returncode == 0 else 1)
    if a.cmd == "replay":
        d = json.load(open(a.arg))
        print("replaying obligation:", d["obligation"])
        print("property sentence  :", d.get("property_sentence"))
        print("counterexample     :", json.dumps(d.get("counterexample")))
        try:
            rs = run_unit(d["unit"], a.tier, d["backend"])
        except Undecided as e:
            print("UNDECIDED", e); sys.exit(2)
        still = [f for r in rs for f in r["failed"] if f["obligation"] == d["obligation"]]
        for f in still:
            print("STILL FAILS:", f["obligation"], f.get("input", ""), f.get("detail", "") or f.get("rendered", ""))
        sys.exit(1 if still else 0)
    raise SystemExit(__doc__)


if __name__ == "__main__":
    main()
