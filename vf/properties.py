"""Per-property wiring: which units carry which clause, claimed level, explanation.
P = proved (Verus, or Kani complete), B = bounded-exhaustive (never counted as proved), - = not decided."""

SURROUND = ("all Rewrite impls (expr.rs, items.rs, types.rs, patterns.rs, matches.rs, closures.rs, chains.rs, overflow.rs, pairs.rs, attr.rs, macros.rs), "
            "the FmtVisitor walk, write_list/itemize_list, rewrite_comment*, rewrite_string, ModResolver, the rustc parser wrappers, Config (de)serialisation")

PROPS = {}


def prop(pid, title, level, units, clauses, explanation, statement_clauses=None, trusted_base=None, assumptions=None, surroundings=SURROUND):
    PROPS[pid] = {"title": title, "level": level, "units": units, "clauses": clauses, "explanation": explanation,
                  "statement_clauses": statement_clauses or {}, "trusted_base": trusted_base or [], "assumptions": assumptions or [],
                  "surroundings": surroundings}


prop("C16", "rustfmt never terminates abnormally", "proof",
     ["U01", "U02"],
     [{"clause": "no arithmetic panic (overflow) in Range::{new,is_empty,contains,intersects,adjacent_to,merge} for any usize", "status": "proved", "by": "U01 (Verus)"},
      {"clause": "no panic in normalize_ranges / FileLines queries / FromStr on the enumerated domain (overflow checks on, panics caught per case)", "status": "bounded", "by": "U02 (native)"},
      {"clause": "catch_unwind containment around the rustc parser and macro formatting; stack depth; ~900 unchecked arithmetic sites inside rewriters", "status": "not_decided", "by": "-"}],
     "Absence of arithmetic panics is discharged by Verus as machine-integer overflow obligations on the verbatim text of the listed functions (all inputs). "
     "Bounded units run the natively compiled real text with overflow checks and catch every panic as a failed obligation. The bulk of C16 (parser containment, stack depth, rewriters) is not decided by this technique.",
     statement_clauses={"U01": "it does not panic (C16) — arithmetic overflow is a panic in the test-profile binary", "U02": "it does not panic (C16)"},
     assumptions=["64-bit target (global size_of usize == 8)"])

prop("C17", "file_lines confines changes to the selected code", "proof",
     ["U01", "U02"],
     [{"clause": "overlapping or adjacent ranges behave as their union (Range::merge / adjacent_to / intersects against the set-of-lines view)", "status": "proved", "by": "U01 (Verus)"},
      {"clause": "normalisation keeps exactly the union; contains_line / intersects / contains_range answer for the union; empty selection selects nothing; order of ranges irrelevant", "status": "bounded", "by": "U02 (native)"},
      {"clause": "every visitor path consults the guard; lookup_line_range (SourceMap)", "status": "not_decided", "by": "-"}],
     "Range algebra is proved in Verus against a set-of-lines view for every usize; the FileLines container (HashMap, iterators, serde) is outside Verus and Kani and is checked bounded-exhaustively on the real file text.",
     statement_clauses={"U01": "An empty selection formats nothing, and overlapping or adjacent ranges behave as their union.",
                        "U02": "An empty selection formats nothing, and overlapping or adjacent ranges behave as their union; diagnostics are issued only for selected lines."},
     assumptions=["64-bit target (global size_of usize == 8)", "trusted 1-line usize shims for std::cmp::{min,max} in the Verus unit"])

prop("C07", "Line-width and trailing-whitespace diagnostics are exact", "proof",
     ["U03", "U04"],
     [{"clause": "per-step state transformer of FormatLines::{new_line,char,push_err,should_report_error} equals the specification; no overflow/underflow (all chars, all usize configs, tab_spaces >= 1)", "status": "proved", "by": "U03 (Verus)"},
      {"clause": "fold over any text of any length: errors == spec_report(text, cfg, skipped, selection) — exactly the lines that are selected, not skipped and (too wide, tab = tab_spaces, or ending in a blank) are reported with their 1-based number (lemma_reported_iff); with error_on_unformatted off the only extra exemption is comment/string lines, a trailing blank elsewhere is always reported (lemma_soft)", "status": "proved", "by": "U03 (Verus: drive + lemmas)"},
      {"clause": "the real iterate + CharClasses + is_skipped_line + FileLines::contains_line agree with the same specification", "status": "bounded", "by": "U04 (native, texts <= 5/7 chars)"},
      {"clause": "a TrailingWhitespace entry sets has_operational_errors (hence exit 1): FormatReport::track_errors on the real Rc<RefCell> state", "status": "bounded", "by": "U04 (native: all 128 flag states x kind sequences <= 3/4)"},
      {"clause": "char kinds are those produced by CharClasses (comment / string classification itself)", "status": "not_decided", "by": "assumption here; bounded check in U10 (C03)"}],
     "The C07 statement is transcribed as the spec function `report`; Verus proves the verbatim step functions against it and the fold for texts of unbounded length. "
     "The loop skeleton of FormatLines::iterate is restated once (10 lines) because CharClasses is an iterator adapter outside Verus; U04 ties the real iterate/CharClasses to the same specification bounded-exhaustively.",
     statement_clauses={"U03": "every line of the emitted text that is wider than max_width (a tab counting as tab_spaces columns) or ends in a blank, and that neither belongs to skipped code nor lies outside the selected line ranges, is reported with its 1-based line number, and no other line is reported",
                        "U04": "same sentence, on the real format_lines; a trailing blank ... makes the run exit with 1"},
     assumptions=["64-bit target", "1 <= tab_spaces <= 65535, text length <= 2^32 (preconditions of the fold)", "char::is_whitespace is the uninterpreted vstd predicate in V, the real one in B",
                  "FileLines::contains_line is an arbitrary predicate in V (external_body), the real one in B; is_skipped_line's contract is assumed in V and checked in U04"])
