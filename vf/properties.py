"""Per-property wiring: which units carry which clause, claimed level, explanation.
P = proved (Verus, or Kani complete), B = bounded-exhaustive (never counted as proved), - = not decided."""

SURROUND = ("all Rewrite impls (expr.rs, items.rs, types.rs, patterns.rs, matches.rs, closures.rs, chains.rs, overflow.rs, pairs.rs, attr.rs, macros.rs), "
            "the FmtVisitor walk, write_list/itemize_list, rewrite_comment*, rewrite_string, ModResolver, the rustc parser wrappers, Config (de)serialisation")

PROPS = {}


def prop(pid, title, level, units, clauses, explanation, statement_clauses=None, trusted_base=None, assumptions=None, surroundings=SURROUND):
    PROPS[pid] = {"title": title, "level": level, "units": units, "clauses": clauses, "explanation": explanation,
                  "statement_clauses": statement_clauses or {}, "trusted_base": trusted_base or [], "assumptions": assumptions or [],
                  "surroundings": surroundings}


prop("C16", "rustfmt never terminates abnormally", "proof",
     ["U01", "U02"],
     [{"clause": "no arithmetic panic (overflow) in Range::{new,is_empty,contains,intersects,adjacent_to,merge} for any usize", "status": "proved", "by": "U01 (Verus)"},
      {"clause": "no panic in normalize_ranges / FileLines queries / FromStr on the enumerated domain (overflow checks on, panics caught per case)", "status": "bounded", "by": "U02 (native)"},
      {"clause": "catch_unwind containment around the rustc parser and macro formatting; stack depth; ~900 unchecked arithmetic sites inside rewriters", "status": "not_decided", "by": "-"}],
     "Absence of arithmetic panics is discharged by Verus as machine-integer overflow obligations on the verbatim text of the listed functions (all inputs). "
     "Bounded units run the natively compiled real text with overflow checks and catch every panic as a failed obligation. The bulk of C16 (parser containment, stack depth, rewriters) is not decided by this technique.",
     statement_clauses={"U01": "it does not panic (C16) — arithmetic overflow is a panic in the test-profile binary", "U02": "it does not panic (C16)"},
     assumptions=["64-bit target (global size_of usize == 8)"])

prop("C17", "file_lines confines changes to the selected code", "proof",
     ["U01", "U02"],
     [{"clause": "overlapping or adjacent ranges behave as their union (Range::merge / adjacent_to / intersects against the set-of-lines view)", "status": "proved", "by": "U01 (Verus)"},
      {"clause": "normalisation keeps exactly the union; contains_line / intersects / contains_range answer for the union; empty selection selects nothing; order of ranges irrelevant", "status": "bounded", "by": "U02 (native)"},
      {"clause": "every visitor path consults the guard; lookup_line_range (SourceMap)", "status": "not_decided", "by": "-"}],
     "Range algebra is proved in Verus against a set-of-lines view for every usize; the FileLines container (HashMap, iterators, serde) is outside Verus and Kani and is checked bounded-exhaustively on the real file text.",
     statement_clauses={"U01": "An empty selection formats nothing, and overlapping or adjacent ranges behave as their union.",
                        "U02": "An empty selection formats nothing, and overlapping or adjacent ranges behave as their union; diagnostics are issued only for selected lines."},
     assumptions=["64-bit target (global size_of usize == 8)", "trusted 1-line usize shims for std::cmp::{min,max} in the Verus unit"])
