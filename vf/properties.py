"""Per-property wiring: which units carry which clause, claimed level, explanation.
P = proved (Verus, or Kani complete), B = bounded-exhaustive (never counted as proved), - = not decided."""

SURROUND = ("all Rewrite impls (expr.rs, items.rs, types.rs, patterns.rs, matches.rs, closures.rs, chains.rs, overflow.rs, pairs.rs, attr.rs, macros.rs), "
            "the FmtVisitor walk, write_list/itemize_list, rewrite_comment*, rewrite_string, ModResolver, the rustc parser wrappers, Config (de)serialisation")

PROPS = {}


def prop(pid, title, level, units, clauses, explanation, statement_clauses=None, trusted_base=None, assumptions=None, surroundings=SURROUND):
    PROPS[pid] = {"title": title, "level": level, "units": units, "clauses": clauses, "explanation": explanation,
                  "statement_clauses": statement_clauses or {}, "trusted_base": trusted_base or [], "assumptions": assumptions or [],
                  "surroundings": surroundings}


prop("C16", "rustfmt never terminates abnormally", "other",
     ["U01", "U02", "U03", "U06", {"unit": "U04", "only": r"does not panic|FormatReportFormatter"}, {"unit": "U07", "only": r"does not panic"}, {"unit": "U09", "only": r"does not panic|push_vertical_spaces_clamp_contract"}, "U28", {"unit": "U18", "only": r"does not panic"}, {"unit": "U30", "only": r"^format_snippet|^format_code_block|^rewrite_macro"}, {"unit": "U32", "only": r"does not panic"}],
     [{"clause": "rewrite_comment / rewrite_string / break_string do not panic (slicing at char boundaries, width arithmetic) on the enumerated comments and options, nor on their own output", "status": "bounded", "by": "U32"},
      {"clause": "no arithmetic panic (overflow) in Range::{new,is_empty,contains,intersects,adjacent_to,merge} for any usize", "status": "proved", "by": "U01 (Verus)"},
      {"clause": "no arithmetic panic in FormatLines::{new_line,char,push_err,should_report_error} and the fold (line_len -= 1 never underflows: invariant last_was_space => line_len >= 1) for texts of any length, tab_spaces >= 1", "status": "proved", "by": "U03 (Verus)"},
      {"clause": "no overflow / division by zero in Indent and Shape arithmetic under wf (fields <= 2^32, tab_spaces >= 1); every *_opt turns 'does not fit' into None (is_none <=> delta > width)", "status": "proved", "by": "U06 (Verus; Kani for mut-self fns and the Option::map payloads)"},
      {"clause": "no arithmetic overflow in the blank-line clamp of push_vertical_spaces for any accepted blank_lines_upper_bound / blank_lines_lower_bound (found F31: usize::MAX panicked; fixed d8db3ac)", "status": "proved", "by": "U09 (Kani, full usize domain)"},
      {"clause": "no panic in normalize_ranges / FileLines queries / FromStr, format_lines, Indent::to_string (80-column buffer seam), push_vertical_spaces on the enumerated domains (overflow checks on, panics caught per case)", "status": "bounded", "by": "U02, U04, U07, U09 (native)"},
      {"clause": "printing the diagnostics (FormatReportFormatter over annotate-snippets) never panics, for every report format_lines can produce on the domain (tabs, multi-byte characters)", "status": "bounded", "by": "U04 (native; whole file format_report_formatter.rs with the real annotate-snippets)"},
      {"clause": "a panic inside the Rust parser (incl. the fatal lexer errors raised while the parser is created) is contained and reported as an ordinary failure of the input", "status": "bounded", "by": "U28 (complete over {ok, diagnostics, panic} x {ok, Err, panic} x error flags)"},
      {"clause": "a panic inside the formatting of one macro (rewrite_macro) or of a code snippet (format_snippet / format_code_block: doc-comment code blocks, macro bodies) is contained: the macro is reported as failed and its source kept / None is returned, nothing unwinds", "status": "bounded", "by": "U30 part C (real functions on shims whose inner call panics, errs or succeeds: complete over the outcome table)"},
      {"clause": "stack depth; ~900 unchecked arithmetic sites inside rewriters", "status": "not_decided", "by": "-"}],
     "Absence of arithmetic panics is discharged by Verus as machine-integer overflow obligations on the verbatim text of the listed functions (all inputs). "
     "Bounded units run the natively compiled real text with overflow checks and catch every panic as a failed obligation. The bulk of C16 (parser containment, stack depth, rewriters) is not decided by this technique.",
     statement_clauses={"U01": "it does not panic (C16) — arithmetic overflow is a panic in the test-profile binary", "U02": "it does not panic (C16)", "U03": "it does not panic", "U06": "it does not panic", "U04": "it does not panic", "U07": "it does not panic", "U09": "it does not panic", "U28": "a panic inside the Rust parser ... is contained and reported as an ordinary failure of that input", "U18": "it does not panic"},
     assumptions=["64-bit target (global size_of usize == 8)"])

prop("C17", "file_lines confines changes to the selected code", "other",
     ["U01", "U02", "U03", {"unit": "U04", "only": r"^format_lines: reported"}, {"unit": "U33", "only": r"\(file_lines\)|has a line inside the selection|intersect the selection"}],
     [{"clause": "a run of use / mod / extern crate items none of which has a line inside the selection is emitted byte for byte (each pushed without a rewrite); a run with an intersecting item is handed over as without the restriction", "status": "bounded", "by": "U33 (real walk_reorderable_or_regroupable_items + out_of_file_lines_range! + lookup_line_range on real parsed items: sequences <= 3 x separators x 12 configurations x every single line, adjacent pair, empty, no range, past the end)"},
      {"clause": "overlapping or adjacent ranges behave as their union (Range::merge / adjacent_to / intersects against the set-of-lines view)", "status": "proved", "by": "U01 (Verus)"},
      {"clause": "normalisation keeps exactly the union; contains_line / intersects / contains_range answer for the union; empty selection selects nothing; order of ranges irrelevant", "status": "bounded", "by": "U02 (native)"},
      {"clause": "diagnostics are issued only for selected lines: the per-line report is empty when the line is not selected (format_line gating, for texts of any length)", "status": "proved", "by": "U03 (Verus: line_errs(sel=false) is empty) + U04 (bounded, real contains_line)"},
      {"clause": "every visitor path consults the guard; lookup_line_range (SourceMap)", "status": "not_decided", "by": "-"}],
     "Range algebra is proved in Verus against a set-of-lines view for every usize; the FileLines container (HashMap, iterators, serde) is outside Verus and Kani and is checked bounded-exhaustively on the real file text.",
     statement_clauses={"U01": "An empty selection formats nothing, and overlapping or adjacent ranges behave as their union.",
                        "U02": "An empty selection formats nothing, and overlapping or adjacent ranges behave as their union; diagnostics are issued only for selected lines.",
                        "U03": "diagnostics are issued only for selected lines", "U04": "diagnostics are issued only for selected lines"},
     assumptions=["64-bit target (global size_of usize == 8)", "trusted 1-line usize shims for std::cmp::{min,max} in the Verus unit"])

prop("C07", "Line-width and trailing-whitespace diagnostics are exact", "proof",
     ["U03", "U04", "U24"],
     [{"clause": "per-step state transformer of FormatLines::{new_line,char,push_err,should_report_error} equals the specification; no overflow/underflow (all chars, all usize configs, tab_spaces >= 1)", "status": "proved", "by": "U03 (Verus)"},
      {"clause": "fold over any text of any length: errors == spec_report(text, cfg, skipped, selection) — exactly the lines that are selected, not skipped and (too wide, tab = tab_spaces, or ending in a blank) are reported with their 1-based number (lemma_reported_iff); with error_on_unformatted off the only extra exemption is comment/string lines, a trailing blank elsewhere is always reported (lemma_soft)", "status": "proved", "by": "U03 (Verus: drive + lemmas)"},
      {"clause": "the real iterate + CharClasses + is_skipped_line + FileLines::contains_line agree with the same specification", "status": "bounded", "by": "U04 (native, texts <= 5/7 chars)"},
      {"clause": "a TrailingWhitespace entry sets has_operational_errors (hence exit 1): FormatReport::track_errors on the real Rc<RefCell> state", "status": "bounded", "by": "U04 (native: all 128 flag states x kind sequences <= 3/4)"},
      {"clause": "'belongs to skipped code': the range recorded for a #[rustfmt::skip] item is exactly the OUTPUT lines of the item (attribute lines excepted), whatever happened to the line count of earlier code", "status": "bounded", "by": "U24 (real push_skipped_with_span / push_rewrite_inner / push_str on a shim visitor; complete over the layout domain)"},
      {"clause": "char kinds are those produced by CharClasses (comment / string classification itself)", "status": "not_decided", "by": "assumption here; bounded check in U10 (C03)"}],
     "The C07 statement is transcribed as the spec function `report`; Verus proves the verbatim step functions against it and the fold for texts of unbounded length. "
     "The loop skeleton of FormatLines::iterate is restated once (10 lines) because CharClasses is an iterator adapter outside Verus; U04 ties the real iterate/CharClasses to the same specification bounded-exhaustively.",
     statement_clauses={"U03": "every line of the emitted text that is wider than max_width (a tab counting as tab_spaces columns) or ends in a blank, and that neither belongs to skipped code nor lies outside the selected line ranges, is reported with its 1-based line number, and no other line is reported",
                        "U04": "same sentence, on the real format_lines; a trailing blank ... makes the run exit with 1",
                        "U24": "every line ... that neither belongs to skipped code ... is reported ..., and no other line is reported"},
     assumptions=["64-bit target", "1 <= tab_spaces <= 65535, text length <= 2^32 (preconditions of the fold)", "char::is_whitespace is the uninterpreted vstd predicate in V, the real one in B",
                  "FileLines::contains_line is an arbitrary predicate in V (external_body), the real one in B; is_skipped_line's contract is assumed in V and checked in U04"])

prop("C20", "The --backup write protocol never loses the original", "fault_enumeration",
     [{"unit": "U16", "only": r"^(FilesWithBackupEmitter|create_emitter)"}, {"unit": "U25", "only": r"--backup|--check"}],
     [{"clause": "at every instant (after every completed, failed or interrupted file-system operation) the complete original is in the file or in its .bk sibling", "status": "bounded", "by": "U16 (complete fault enumeration w.r.t. the FS model)"},
      {"clause": "the file, when present, holds the complete original or the complete formatted text, never a partial one", "status": "bounded", "by": "U16"},
      {"clause": "after success file = formatted and .bk = original; unchanged files get no .bk and no operation", "status": "bounded", "by": "U16"},
      {"clause": "the --backup flag reaches make_backup(true) whatever other flags are given, and create_emitter then selects the backup emitter for --emit files", "status": "bounded", "by": "U25 (all flag combinations) + U16 create_emitter table"},
      {"clause": "position of the file in a multi-file run (each file's write is an independent call of the same function)", "status": "not_decided", "by": "-"}],
     "The real text of FilesWithBackupEmitter::emit_formatted_file runs against a recording file-system model; its effect sequence is loop-free, so enumerating "
     "every operation index x {fails without effect, fails after a partial write, crash right after, crash after a partial write} is a complete fault enumeration with respect to the model "
     "(write non-atomic, rename atomic and replacing). Neither Verus nor Kani can execute Path::with_extension / dyn Write / io::Error code (Kani > 10 min), so this is native and labelled as enumeration, not proof.",
     statement_clauses={"U16": "whichever file-system operation of the write is the last to complete before a crash or an I/O error, one of the two holds the complete original, and the file, when present, holds either the complete original or the complete formatted text, never a partial one"},
     assumptions=["POSIX model: fs::write may leave a prefix, fs::rename is atomic and replaces its target; a crash happens between operations or inside a write",
                  "file contents drawn from 4 short texts: the function never inspects the bytes beyond `original_text != formatted_text`"],
     )


prop("C15", "Output is a function of source and configuration only", "other",
     ["U05", {"unit": "U23", "only": r"^format_input_inner|^Session::format"}, {"unit": "U04", "only": r"does not depend on the order"}, {"unit": "U30", "only": r"^format:|^handle_formatted_file"}],
     [{"clause": "the session summary (ReportedErrors::add) is a field-wise OR: commutative, associative, idempotent, so the final flags do not depend on the order of the files", "status": "proved", "by": "U05 (Kani, complete)"},
      {"clause": "the exit status of a multi-file invocation is the maximum of the single-file statuses (file and stdin entry points)", "status": "proved", "by": "U05 (Kani, complete)"},
      {"clause": "override_config runs the closure under the local configuration and restores the session configuration afterwards (for any closure that does not itself assign `config`)", "status": "proved", "by": "U05 (Kani, complete)"},
      {"clause": "every root of one session is judged by its own configuration (required_version), whatever was formatted before it", "status": "bounded", "by": "U23 (session histories of three roots)"},
      {"clause": "the printed diagnostics do not depend on the order in which files were reported nor on a per-process hash seed", "status": "bounded", "by": "U04 (same report content appended in 20 different orders)"},
      {"clause": "several files on one command line: each is formatted exactly once per occurrence, in order, under the configuration load_config returns for ITS OWN directory (or the --config-path one), whatever came before it; the exit status is the maximum of the single-file statuses; the session configuration is the global one again after the loop", "status": "bounded", "by": "U30 part A (the real fn format of bin/main.rs on a real scratch tree with recording load_config / format_and_emit_report; all sequences of <= 3/4 files x 8 config layouts)"},
      {"clause": "every formatted file is handed to the emitter exactly once, also when the same name was handled before in the session; has_diff goes to the report of this call; emitter errors carry the file name", "status": "bounded", "by": "U30 part B (real impl FormatHandler for Session; histories of <= 3/4 calls)"},
      {"clause": "fresh ParseSess per input, environment / working-directory independence, stdin-vs-path equality of the bytes, per-file reports equal to single-file runs", "status": "not_decided", "by": "-"}],
     "Only the state that survives between inputs of one session is within reach of contracts: the error summary, the exit-code formula and the config swap. They are loop-free functions over booleans and "
     "two words, so a Kani harness over fully symbolic inputs is a complete proof. Whether the formatter proper is deterministic is not decided by this technique.",
     statement_clauses={"U05": "The exit status of a multi-file invocation is the maximum of the single-file statuses"},
     assumptions=["Session is a shim holding the real fields read by the extracted functions (config, errors, out); Config is two opaque words", "Session::format is a harness-chosen outcome"])

prop("C05", "A failing run never damages source files", "other",
     ["U05", {"unit": "U16", "exclude": r"^FilesWithBackupEmitter"}, "U23", "U26", "U28", {"unit": "U30", "only": r"^format:"}],
     [{"clause": "the exit status is 1 whenever a parsing or operational error was recorded; an Err from formatting a root is folded into the session as an operational error and later roots are still processed", "status": "proved", "by": "U05 (Kani, complete)"},
      {"clause": "a file is only ever replaced by its complete formatted text, and only if it differs (FilesEmitter: exactly one fs::write of the whole text, iff original != formatted)", "status": "bounded", "by": "U16 (native, complete w.r.t. the FS model)"},
      {"clause": "only --emit files reaches the file system (create_emitter table + token scan of the other emitters)", "status": "bounded", "by": "U16 + frame scan"},
      {"clause": "parse of the root and resolution of every reached module complete before the first file is formatted/emitted; a parse error, resolution error or failing parse session formats nothing; a parse error sets has_parsing_errors and is merged into the session; a required_version mismatch is an error before anything runs", "status": "bounded", "by": "U23 (real format_project / format_input_inner on event-recording shims, complete over the decision domain, <= 2 files)"},
      {"clause": "the top-level parse returns Ok only if the parser could be created, the parse succeeded and no error is left (errors may be forgiven only when they are resettable); parser panics are contained", "status": "bounded", "by": "U28 (real ParserBuilder::build / Parser::parse_crate on shims whose every entry point may succeed, fail or panic; complete over the outcome combinations)"},
      {"clause": "errors may be reset only if every diagnostic seen was a recoverable error in an ignored file: once a non-ignorable error has been emitted can_reset stays false, whatever came before or after (SilentOnIgnoredFilesEmitter, real rustc_errors types)", "status": "bounded", "by": "U26 (all sequences of <= 3/4 diagnostics over 6 kinds)"},
      {"clause": "other roots named on the same command line are still formatted: a missing file, a directory, or a root whose configuration fails to load is an error of that root only", "status": "bounded", "by": "U30 part A"},
      {"clause": "the rustc parser and ModResolver report every fault of the input (syntax error in any reached module, both foo.rs and foo/mod.rs, ...); malformed configuration", "status": "not_decided", "by": "-"}],
     "Decided: the exit-code and error-folding clauses (proved on the extracted statements), the 'only complete text, only if different' clause of the files emitter, and the ordering 'parse and resolve everything, then format' of format_project. "
     "Not decided: that rustc's parser / ModResolver detect every fault.",
     statement_clauses={"U05": "a diagnostic is printed and the exit status is 1. Other roots named on the same command line are still formatted",
                        "U16": "a file is only ever replaced by its complete formatted text",
                        "U23": "If the input cannot be processed (...), rustfmt writes nothing for that crate root",
                        "U26": "syntax error ... in any out-of-line module it reaches ... writes nothing ... exit status is 1", "U28": "syntax error in the root file ... exit status is 1"})

prop("C06", "Check mode is read-only and exact; all emit modes agree on the text", "other",
     ["U05", {"unit": "U16", "exclude": r"^FilesWithBackupEmitter"}, {"unit": "U25", "only": r"--check|--backup"}, {"unit": "U15", "only": r"^DiffEmitter"}],
     [{"clause": "--check exits 1 exactly when (no operational/parsing error and) a diff or check error was recorded, 0 otherwise (exit-code statement of `format`)", "status": "proved", "by": "U05 (Kani, complete)"},
      {"clause": "files mode touches a file only if its formatted text differs from the original, and then writes exactly the formatted text", "status": "bounded", "by": "U16"},
      {"clause": "stdout mode prints exactly the formatted text (plus the file-name header unless quiet) — the same &str the files emitter writes", "status": "bounded", "by": "U16"},
      {"clause": "--check / stdout / diff / json / checkstyle / modified-lines never modify a file: create_emitter selects a writing emitter only for EmitMode::Files; the other emitter files contain no file-system name", "status": "bounded", "by": "U16 + frame scan emitters_no_fs"},
      {"clause": "--check selects the (non-writing) diff emitter whatever --emit says", "status": "bounded", "by": "U25 (all flag combinations)"},
      {"clause": "DiffEmitter's has_diff <=> original != formatted, line terminators included (the very condition under which the files emitter writes): ties --check's exit status to what plain rustfmt would rewrite", "status": "bounded", "by": "U15 (real DiffEmitter over the text pairs incl. CRLF variants)"},
      {"clause": "modification times; text produced for stdin equals text for a path", "status": "not_decided", "by": "-"}],
     "Mixture: exit-code formula proved (Kani), emitter behaviour enumerated on the real text, frame scan for the non-writing emitters.",
     statement_clauses={"U05": "`--check` exits with 1 exactly when plain `rustfmt` would rewrite at least one of the files, and with 0 otherwise",
                        "U16": "files mode touches a file only if its formatted text differs from what is on disk; the non-files emitters never modify a file",
                        "U15": "`--check` exits with 1 exactly when plain `rustfmt` would rewrite at least one of the files", "U25": "`--check` ... never modify a file"})

prop("C12", "Diff-based reports reconstruct the formatted text exactly", "exploration",
     ["U15"],
     [{"clause": "the chunks of the modified-lines report applied to the original yield the formatted text line for line; parse(display(m)) == m", "status": "bounded", "by": "U15 (the property's own exhaustive quantifier)"},
      {"clause": "each diff hunk's context, removed and added lines are consistent with both texts at the stated line numbers; hunks ordered and disjoint; context sizes 0..3", "status": "bounded", "by": "U15"},
      {"clause": "json and checkstyle name the same line numbers and texts as the chunks", "status": "bounded", "by": "U15"},
      {"clause": "a report is empty exactly when the two texts have the same lines", "status": "bounded", "by": "U15 — KNOWN FINDING for checkstyle on pure deletions"},
      {"clause": "json and checkstyle documents are well-formed whatever characters the source contains", "status": "bounded", "by": "U15 (special-character alphabet; XmlEscaped on all strings <= 4 over the 5 specials) — KNOWN FINDING: U+000C in checkstyle"},
      {"clause": "random real source/formatted pairs", "status": "not_decided", "by": "-"}],
     "C12's quantifier is itself a finite exhaustive domain (all pairs of line sequences of length <= 5 over a 3-letter alphabet incl. the empty line, with/without final newline, context 0..3); the unit enumerates it completely on the real make_diff / ModifiedLines / JsonEmitter / output_checkstyle_file / XmlEscaped text with the real diff crate. "
     "No deductive back end reaches this code (Vec<String>, VecDeque, diff::lines iterator, fmt::Display, serde): Verus rejects it, Kani does not terminate on String code; hence level exploration, exhaustive within the stated bound. quick = length <= 3, thorough = length <= 5.",
     statement_clauses={"U15": "the chunks of the modified-lines report applied to the original yield the formatted text line for line ... A report is empty exactly when the two texts have the same lines"},
     assumptions=["diff::lines yields a correct edit script (dependency, trusted)", "serde_json produces well-formed JSON", "a text is its lines joined by \\n; the empty text has no line"])

prop("C08", "Emitted text obeys the whitespace and newline discipline", "other",
     ["U08", "U07", "U09", "U06", {"unit": "U04", "only": r"^format_lines: trailing newline"}, "U27"],
     [{"clause": "all line terminators follow newline_style (Unix: no CRLF; Windows: every LF preceded by CR; Auto: style of the first terminator of the input; Native = Unix here); converting changes nothing but the terminators; conversions idempotent", "status": "bounded", "by": "U08 (native, all strings <= 6/8 over {a,CR,LF} x 4 styles x raw inputs <= 3/4)"},
      {"clause": "ends with exactly one line terminator: append_newline appends one LF; format_lines truncates a trailing newline run to one", "status": "bounded", "by": "U08 + U04"},
      {"clause": "newline_count equals the length of the trailing newline run for texts of any length (fold invariant)", "status": "proved", "by": "U03 (Verus, see C07)"},
      {"clause": "never more than blank_lines_upper_bound blank lines pushed between items/statements; at least lower_bound; line_number bookkeeping; idempotent", "status": "bounded", "by": "U09 (native; buffers x counts 0..8 x bounds 0..4)"},
      {"clause": "the clamp arithmetic of push_vertical_spaces for EVERY usize value of the two bounds, the count and the trailing-newline offset: result 0 when the buffer already holds upper+1 newlines, otherwise offset+result <= upper+1, >= min(lower,upper)+1 when below, unchanged inside the bounds; no overflow", "status": "proved", "by": "U09 (Kani, loop-free, full domain; statement slices of the real function)"},
      {"clause": "indentation text: spaces only (hard_tabs off) or block_indent/tab_spaces tabs followed by alignment spaces (hard_tabs on); the 80-column static-buffer seam", "status": "bounded", "by": "U07 (native, exhaustive to 200/400 columns, tab_spaces 1..8)"},
      {"clause": "Indent built by from_width/block_indent/block_unindent keeps block_indent a multiple of tab_spaces and width() as requested", "status": "proved", "by": "U06 (Verus all usize; Kani for the mut-self fns)"},
      {"clause": "does not start with a blank line: skip_empty_lines moves past exactly the maximal run of leading whitespace-only lines before anything is emitted", "status": "bounded", "by": "U27 (real skip_empty_lines / SnippetProvider / find_uncommented with real rustc_span types; all texts <= 6/8 over 5 characters, two base offsets)"},
      {"clause": "at most one blank line inside lists; every emitter of indentation goes through Indent::to_string; the byte-0 guard of format_missing_inner", "status": "not_decided", "by": "-"}],
     "Mixture of proved arithmetic (U06/U03) and bounded-exhaustive checks of the string-producing functions (newline conversion, indentation text, vertical-space clamp), which no deductive back end here can execute symbolically.",
     statement_clauses={"U08": "all of its line terminators follow newline_style ..., and converting the style changes nothing but the terminators", "U09": "there are never more than blank_lines_upper_bound blank lines",
                        "U07": "every line is indented with spaces only (hard_tabs off) or with tabs followed only by alignment spaces (hard_tabs on)", "U06": "indentation arithmetic", "U04": "the emitted text ends with exactly one line terminator", "U27": "does not start with a blank line"},
     assumptions=["U08 precondition: no CR immediately before CRLF in the formatted buffer (the pipeline strips bare CRs earlier)", "FmtVisitor is a shim {buffer, line_number, config}"])

prop("C14", "Configuration is resolved with the documented precedence", "other",
     ["U19", "U25", {"unit": "U30", "only": r"^format: each file is formatted under"}],
     [{"clause": "unset options take the defaults of the effective style edition: style_edition, else legacy version, else edition", "status": "proved", "by": "U19 (Kani, complete)"},
      {"clause": "an explicitly set width option is clamped to max_width, an unset one takes the heuristic; Max => equal to max_width; Off => the null table", "status": "proved", "by": "U19 (Kani, complete over all usize)"},
      {"clause": "Default heuristics never exceed max_width for 70 <= max_width <= 10000 (f32 rounding bit-precise)", "status": "proved", "by": "U19 (Kani, stated range)"},
      {"clause": "width limits derived from use_small_heuristics never exceed max_width — literally, for every max_width and mode", "status": "bounded", "by": "U19 native — KNOWN FINDING F3 (Off; Default with max_width < 70)"},
      {"clause": "deprecated aliases map to their successors (only when the successor is unset)", "status": "proved", "by": "U19 (Kani, complete)"},
      {"clause": "--config-path replaces discovery wholesale; else the nearest file; else defaults; command-line overrides applied after the file", "status": "bounded", "by": "U19 native (complete enumeration of the decision domain, loaders shimmed)"},
      {"clause": "the dotted name wins in the same directory", "status": "bounded", "by": "U19 native (real file system, 9 presence patterns)"},
      {"clause": "every dedicated flag sets its option as a command-line override (set_cli: wins over any file); inline --config key=val pairs are applied last, each once; inline edition/style_edition/version beat the dedicated flags in default selection", "status": "bounded", "by": "U25 (complete over the flag combinations, recording Config)"},
      {"clause": "directory walk / home / user-config lookup; same value same effect from file, flag or API for every option (macro-generated per-option code); --print-config round trip (serde/toml)", "status": "not_decided", "by": "-"}],
     "Loop-free precedence and clamping code is proved with Kani on the extracted text of the create_config! helper functions (they use no macro metavariable, so they can be sliced out of the macro body verbatim). "
     "The loader orchestration is enumerated natively with recording stand-ins for the TOML half. The per-option macro code ($i metavariables) is not extractable and not decided.",
     statement_clauses={"U19": "with `--config key=val` and dedicated flags overriding any file, and with unset options taking the defaults of the effective style edition (style_edition, else legacy version, else edition) ... deprecated aliases map to their successors; width limits derived from use_small_heuristics never exceed max_width"},
     assumptions=["Config is a shim carrying the option triples the extracted functions touch", "Config::from_toml_path / from_resolved_toml_path / config_path are recording stand-ins in the native part"])

prop("C18", "cargo fmt formats the right targets with the right editions", "exploration",
     ["U21", "U34"],
     [{"clause": "exit status is non-zero exactly when some rustfmt invocation failed (all vectors of <= 2 real wait statuses incl. signals, <= 3 over representatives; plus real child processes)", "status": "bounded", "by": "U21"},
      {"clause": "each file once, each with the edition declared for its target; one invocation per edition; options passed through unchanged after the files and --edition", "status": "bounded", "by": "U21 (lists of <= 4 targets; recording Command shim)"},
      {"clause": "Target identity/order/hash by path; BTreeSet de-duplicates shared files", "status": "bounded", "by": "U21"},
      {"clause": "selection strategy table (--all / -p / root)", "status": "bounded", "by": "U21"},
      {"clause": "target discovery: root / -p / --all select exactly the root files of the targets of the current package / the named members / every member and every local path dependency transitively, each with its declared edition; unknown package and unusable manifest are errors before rustfmt is started", "status": "bounded", "by": "U34 (real get_targets* over real `cargo metadata` on generated workspace trees h1..h9 + family f; every cwd and manifest path; KNOWN FINDINGS K-ROOT-SUBDIR, K-ROOT-WSROOT, K-ROOT-VIRTUAL-MANIFEST, K-ALL-FOREIGN-WS)"},
      {"clause": "clap flag translation (--message-format), cargo's own resolution of manifests", "status": "not_decided", "by": "-"}],
     "Whole file src/cargo-fmt/main.rs verbatim; run_rustfmt is exercised both through a recording Command shim (extracted a second time into a module where Command resolves to the shim) and end-to-end with real child processes that exit or kill themselves as scripted. "
     "cargo-fmt is process/HashMap/String code outside Verus and Kani; hence bounded exploration with a stated domain.",
     statement_clauses={"U21": "each file once, each with the edition declared for its target ...; its exit status is non-zero exactly when some rustfmt invocation failed", "U34": "invokes rustfmt on exactly the root source files of all targets of the selected packages ...; an unknown package or unusable manifest path is an error before anything is formatted"},
     assumptions=["U21: Target values are built by struct literal", "cargo metadata (the real cargo of the sandbox), process spawning and clap are trusted", "U34: -p naming a local path dependency that is no workspace member: the statement is silent, either answer accepted"])

prop("C19", "format-diff turns a patch into exactly the lines it added", "exploration",
     ["U22"],
     [{"clause": "files and ranges == an independent, regex-free reading of the diff: post-image path minus -p components, whole-path filter match, range [start, start+count-1], missing count = 1, count 0 skipped, non-headers contribute nothing", "status": "bounded", "by": "U22 (all sequences of <= 3/4 lines over 16 line shapes x -p 0..3 x 4 filters)"},
      {"clause": "run_rustfmt passes exactly those files and ranges as --file-lines JSON, runs nothing for an empty result, fails when the child fails or cannot start", "status": "bounded", "by": "U22 (recording process shim, 6 child outcomes)"},
      {"clause": "reading the diff from stdin (fn run), clap argument parsing", "status": "not_decided", "by": "-"}],
     "Whole file src/format-diff/main.rs verbatim with the real regex crate against an oracle written from the statement. Regex/String/HashSet code is outside Verus and Kani; bounded exploration.",
     statement_clauses={"U22": "precisely the post-image line range announced by each hunk header (start and count, a missing count meaning one line); hunks whose post-image is empty, files that do not match and lines that are not headers contribute nothing"},
     assumptions=["line numbers <= 2^31 (observation O4: larger ones panic in parse::<u32>().unwrap(); outside C19's quantifier)", "paths without blanks (as in the quantifier)"])

prop("C09", "Released style editions are frozen", "other",
     ["U20", {"unit": "U13", "only": r"2015|identical|style edition"}],
     [{"clause": "style editions 2015, 2018 and 2021 produce identical text — non-interference: every comparison of the style edition in formatting code is constant on the three (frame scan over all of src/), and the default table groups them in one arm", "status": "bounded", "by": "U20 frame scan (mechanical, whole src/) — a token-level frame argument, not a deductive proof"},
      {"clause": "the order those comparisons rely on is the total order 2015 < 2018 < 2021 < 2024 < 2027 (real PartialOrd impl over the real rustc Edition)", "status": "bounded", "by": "U20 native (finite domain enumerated completely: 25 pairs x operators)"},
      {"clause": "the import comparator gives identical results for 2015/2018/2021", "status": "bounded", "by": "U13 (see C11)"},
      {"clause": "byte-identical to the pinned release rustfmt 1.8.0 for every released style edition", "status": "not_decided", "by": "- (compares two executions of two builds; no contract on one function states it)"}],
     "Clause 1 is decided by a non-interference argument: the style edition reaches formatting code only through comparisons against StyleEdition::EditionN constants, copies of the value, and the per-edition default table; "
     "the scan classifies every such token and fails on any comparison whose truth value differs among 2015/2018/2021 (e.g. `>= Edition2021`, `== Edition2018`). A form the scan cannot classify is exit 2 (undecided), never an alarm. "
     "Clause 2 (equality with the pinned release) is not decided by this technique.",
     statement_clauses={"U20": "For a given source and options, the style editions 2015, 2018 and 2021 produce identical text"},
     assumptions=["the style edition influences formatting only through the scanned token forms (values copied into UseSegment.style_edition are compared with the same operators, which the scan also sees)"])

prop("C13", "Exactly the reachable, non-excluded files are formatted, each once", "other",
     [{"unit": "U23", "only": r"^format_project"}, "U17", "U31"],
     [{"clause": "of the (path, module) list produced by module resolution, exactly the non-excluded entries are formatted, each once, in order; stdin never filters; children are resolved only for file input without skip_children", "status": "bounded", "by": "U23 (real format_project on event-recording shims, <= 2 files)"},
      {"clause": "exclusion decision: skip attribute, skip_children, ignore, @generated (should_skip_module: proved equal to the statement's formula for file input; is_generated_file, IgnorePathSet bounded)", "status": "proved", "by": "U17 (Kani complete) + U17 native — KNOWN FINDING: stdin + @generated"},
      {"clause": "reachability: the files the real ModResolver lists for a root are exactly those the language rules resolve (name.rs / name/mod.rs relative to the module directory, nested inline modules, #[path], cfg_attr(path), cfg_if!/cfg_match!, the documented fallback), each once; a missing or ambiguous module is an error, never a guess; decoys are never listed; a file with an inner skip attribute is not descended into; recursive = false lists only the root", "status": "bounded", "by": "U31 (the real resolver, real rustc parser and rustc_expand on real directory trees: every subset of the candidate files of 7 families, 3008 / 11520 trees) — KNOWN FINDINGS K-INLINE, K-ROOTSKIP (both pinned by existing tests), K-SPELLING"},
      {"clause": "trees deeper than 4 levels, symlinks, absolute #[path], case-insensitive file systems", "status": "not_decided", "by": "-"}],
     "Consumer side: given the resolver's list, the real format_project formats precisely the non-excluded entries once each (U23), with the exclusion table proved for file input (U17). "
     "Producer side: the real ModResolver (whole files parse/session.rs, parse/parser.rs, modules/visitor.rs, every item of modules.rs, real rustc parser) is run on real directory trees against an oracle written from the language rules (U31) — bounded by the enumerated tree families.",
     statement_clauses={"U23": "Each such file is formatted once ..., except modules or files that are skipped, matched by `ignore`, marked @generated ..., or any child when skip_children is set or the input is standard input"})

prop("C01", "Formatting preserves the meaning of the program", "other",
     ["U18", {"unit": "U14", "only": r"never adds or renames an import|never loses an import"}],
     [{"clause": "the declared normalisations of imports (merging, flattening, regrouping) neither add, drop nor rename an import and keep its visibility and attributes", "status": "bounded", "by": "U14 (see C10; the import-loss classes K1, K2, K5, K6 are known findings here too)"},
      {"clause": "no keyword is added, dropped or altered at the leaves that spell modifiers: format_coro/constness/constness_right/defaultness/safety/auto/mutability map every variant to its own keyword(s) + one blank, the absent modifier to the empty string, no two modifiers to the same text", "status": "proved", "by": "U18 (Kani, complete over shim enums with exactly the variants the exhaustive matches name) + native re-check on the REAL rustc_ast enums"},
      {"clause": "explicit extern ABI: `extern \"C\"` is added/removed only as the option dictates; any other ABI is emitted as one string literal with the same value", "status": "bounded", "by": "U18 native (14 ABI spellings x explicit_abi, real ast::Extern)"},
      {"clause": "restricted visibility spelling (format_visibility on real ast::Visibility, 15 paths)", "status": "bounded", "by": "U18 native"},
      {"clause": "literal-spelling rewrites keep the literal's kind, suffix and value (hex_literal_case, float_literal_trailing_zero); Preserve leaves the spelling untouched; a second pass changes nothing", "status": "bounded", "by": "U18 native (20 integer spellings, float grid x all settings; oracle: rustc_lexer + numeric parse)"},
      {"clause": "macro_rules bodies are formatted through a reversible substitution of metavariables (replace_names / register_metavariable / the undo loop of MacroBranch::rewrite)", "status": "bounded", "by": "U18 native (all bodies <= 6 over 7 characters + <= 5 over {$,a,z,blank}) — KNOWN FINDING: placeholder collisions (z$z)"},
      {"clause": "every rewriter re-emits every field of its AST node; fallback to the source on a failed rewrite; missed-span copying; parenthesis / arm / closure normalisations; rewrite_string", "status": "not_decided", "by": "- (the property's bulk: no contract within reach expresses token preservation of format_expr(e) without a model of rustc_ast)"}],
     "Only the leaves are within reach: the functions that spell keywords, ABIs, visibilities and literals, and the metavariable substitution. They are loop-free tables (Kani, complete) or small string functions (bounded-exhaustive against rustc_lexer). "
     "That the ~20 kLoC of rewriters preserve the token sequence is not decided by this technique.",
     statement_clauses={"U18": "No identifier, literal, operator, keyword, lifetime, visibility, attribute or doc comment is otherwise added, dropped, reordered or altered, inside macro invocations and macro definitions as well as in ordinary code", "U14": "up to the declared normalisations (... merging of imports ...): no ... visibility ... is otherwise added, dropped ... or altered"})

prop("C04", "Skip-marked code and opted-out files are emitted verbatim", "other",
     ["U17", "U24", "U29"],
     [{"clause": "whole-file opt-out decision: skip attribute / skip_children / ignore / @generated (should_skip_module) — formula taken from the statement equals the code for every file input", "status": "proved", "by": "U17 (Kani, complete over all boolean combinations)"},
      {"clause": "the same decision end-to-end through the real format_input_inner / format_project / should_skip_module / is_generated_file / IgnorePathSet on recording shims: opted-out files never reach the emitter; disable_all_formatting returns before anything runs and echoes stdin byte for byte", "status": "bounded", "by": "U17 native (2048 combinations) — KNOWN FINDING: stdin + @generated"},
      {"clause": "@generated is looked for in the first generated_marker_line_search_limit lines only", "status": "bounded", "by": "U17 native"},
      {"clause": "rustfmt::skip::macros / rustfmt::skip::attributes name scoping: skip(name) holds exactly for the names added (or all), monotone, All absorbing", "status": "bounded", "by": "U17 native (whole file skip.rs)"},
      {"clause": "a #[rustfmt::skip] item is pushed verbatim and the line range recorded for it is exactly its output lines", "status": "bounded", "by": "U24"},
      {"clause": "every spelling of the attribute: contains_skip is true exactly for rustfmt::skip, the deprecated rustfmt_skip and either of them inside (nested) cfg_attr; visit_attrs skips the item exactly when its WHOLE attribute list holds one (inner and outer spelling alike), reports DeprecatedAttr / BadAttr once each; skip::macros / skip::attributes yield exactly the listed names", "status": "bounded", "by": "U29 (real rustc attributes obtained by parsing generated source with the real rustc parser; all lists of <= 2/3 attributes over 14 spellings x inner/outer/mixed x requested style)"},
      {"clause": "every node kind (expression, field, variant, match arm ...) returns its source snippet when visit_attrs / contains_skip says so", "status": "not_decided", "by": "-"}],
     "Decision tables proved / enumerated; the per-node verbatim copying inside the rewriters is not decided.",
     statement_clauses={"U17": "A file that opts out as a whole (inner skip attribute, disable_all_formatting, an ignore match, or an @generated marker when generated files are excluded) is neither changed nor reported as differing", "U24": "appear in the output with their original bytes", "U29": "carrying #[rustfmt::skip] (directly or via cfg_attr, or the deprecated rustfmt_skip)"})

prop("C03", "Comments are never silently dropped", "other",
     ["U10", "U11", {"unit": "U32", "only": r"sequence of words|comes out with the same text|ends at its own|does not panic$"}],
     [{"clause": "comment/code segmentation agrees with the Rust lexer: CharClasses yields every char once in order; the bytes classified as comment are exactly rustc_lexer's comment tokens (plus the newline ending a line comment); string bytes lie inside string tokens", "status": "bounded", "by": "U10 (all strings <= 6/7 over 10 characters that rustc lexes, + three deeper sub-domains) — KNOWN FINDINGS: nested /* after a quote inside a block comment; r in the middle of a token"},
      {"clause": "CommentCodeSlices / UngroupedCommentCodeSlices / LineClasses partition the text (every byte handed out once, comment bytes in comment slices)", "status": "bounded", "by": "U10"},
      {"clause": "the safety net: changed_comment_content(s,s) is false; it is false only if the non-blank comment characters are equal; re-indentation raises no false alarm; recover_comment_removed keeps the source snippet (and reports exactly one LostComment under error_on_unformatted) whenever the comment payload differs", "status": "bounded", "by": "U11 (all pairs of lexable texts <= 5/6 over 6 characters, + block-comment bodies, + multi-comment texts) — KNOWN FINDING: //// and /*** openers"},
      {"clause": "rewrite_comment / rewrite_doc_comment keep the sequence of words of every comment under every combination of wrap_comments x normalize_comments x comment_width x indent x block_style (comment tokens delimited by rustc_lexer); with both options off every comment keeps its text line by line; two comments in a row stay two comments", "status": "bounded", "by": "U32 (17278 comment arrangements over a 10-word vocabulary x 5 comment styles + 6084 two-comment texts x 48 option combinations; KNOWN FINDING K_SAMELINE; the later-line variant was repaired: 0872bcc)"},
      {"clause": "list machinery (extract_pre_comment / write_list), close_block, 'exactly once'", "status": "not_decided", "by": "- (2 kLoC of string code over Config/Shape/unicode tables)"}],
     "Decided are the two mechanisms everything else leans on: the lexical segmentation into code and comments (against the real rustc_lexer) and the lost-comment safety net. Both are string walkers outside Verus/Kani, hence bounded-exhaustive. "
     "The placement of comments by the list and block rewriters is not decided.",
     statement_clauses={"U32": "reappears in the output with the same text up to re-indentation and, only under wrap_comments / normalize_comments, re-wrapping and marker normalisation", "U10": "Every non-doc comment of the input ... reappears in the output with the same text", "U11": "If rustfmt cannot place such a comment it leaves the enclosing statement as written rather than losing it"})

IDEM = r"idempot|again|twice|second pass|rewriting the result"
prop("C02", "Formatting is idempotent", "other",
     [{"unit": "U08", "only": IDEM}, {"unit": "U02", "only": IDEM}, {"unit": "U09", "only": IDEM + r"|at most blank_lines_upper_bound|pushed == clamp"}, {"unit": "U10", "only": IDEM}, {"unit": "U18", "only": IDEM},
      {"unit": "U04", "only": r"^format_lines: trailing newline"}, {"unit": "U14", "only": IDEM + r"|second time"},
      {"unit": "U32", "only": r"second pass|go in one pass|code fence|table row|inside a code block|own output"}],
     [{"clause": "comment rewriting is a fixed point: rewrite_comment applied to its own output changes nothing, for every option combination", "status": "bounded", "by": "U32 (same domain as C03; SIX KNOWN FINDINGS: K_TAIL, K_TRAIL, K_FENCE, K_CODEBLANK, K_TABLE, K_BLOCKGAP - all need wrap_comments or normalize_comments)"},
      {"clause": "newline-style conversion is a fixed point (Unix and Windows converters idempotent)", "status": "bounded", "by": "U08"},
      {"clause": "the blank-line clamp is a fixed point: the first pass already lands inside [lower, upper] (exact clamp law), so a second pass finds nothing to clamp; a second push with nothing new pushes nothing", "status": "bounded", "by": "U09"},
      {"clause": "trailing-newline truncation leaves exactly one terminator (a second pass finds nothing to truncate)", "status": "bounded", "by": "U04"},
      {"clause": "remove_trailing_white_spaces and trim_left_preserve_layout are idempotent", "status": "bounded", "by": "U10"},
      {"clause": "literal re-spelling is idempotent (rewriting the rewritten literal changes nothing)", "status": "bounded", "by": "U18"},
      {"clause": "file_lines normalisation is idempotent", "status": "bounded", "by": "U02"},
      {"clause": "import normalisation is idempotent; regrouping (normalize, regroup by granularity, sort) a second time changes nothing", "status": "bounded", "by": "U14 — KNOWN FINDINGS K1, K2, K4, K5, K6, K7 (imports_granularity)"},
      {"clause": "whole-program idempotence: format(format(x)) == format(x) for every source (layout thresholds inside the rewriters agreeing with themselves on their own output)", "status": "not_decided", "by": "- (no contract on one function expresses it; it is a statement about the composition of all rewriters)"}],
     "Whole-program idempotence is not decided by this technique. What is decided are the fixed-point clauses of the mechanisms the anchors name as being 'themselves fixed points', each as the postcondition f(f(x)) == f(x) on the real function, bounded-exhaustively.",
     statement_clauses={"U08": "a second run rewrites no file", "U09": "a second run rewrites no file", "U10": "a second run rewrites no file", "U18": "a second run rewrites no file", "U02": "a second run rewrites no file", "U04": "a second run rewrites no file", "U14": "a second run rewrites no file", "U32": "comment rewriting ... must be stable under re-application"})

prop("C10", "Import rewriting preserves what is imported", "exploration",
     ["U14"],
     [{"clause": "under every imports_granularity the set of imported (attributes, visibility, path, alias) denoted by a run of use declarations is unchanged by normalize / flatten / merge / nest_trailing_self / normalize_use_trees_with_granularity (never adds, loses or renames)", "status": "bounded", "by": "U14 (grammar-generated lists of <= 2/3 trees x 5 granularities against an independent leaves() expansion) — KNOWN FINDINGS K1, K2, K5, K6"},
      {"clause": "never merges across differing visibility, attributes or attached comments; a tree with attributes or a comment is returned as is", "status": "bounded", "by": "U14"},
      {"clause": "group_imports is a partition that keeps every tree once, in relative order", "status": "bounded", "by": "U14 (real reorder::group_imports)"},
      {"clause": "UseTree::from_ast (needs rustc_ast), 'never moves an import across a non-import item' (visitor over spans), rewriting to text", "status": "not_decided", "by": "-"}],
     "The real imports.rs merge machinery is extracted item by item (no shim was needed: visibility, attributes and spans are the real rustc types) and driven with UseTree values built by the file's own test parser. "
     "HashMap-free but String/Vec/recursion-heavy code outside Verus and Kani: bounded exploration, exhaustive within the stated grammar bound.",
     statement_clauses={"U14": "merging, splitting, flattening, nesting `self`, dropping empty lists and removing duplicates never adds, loses or renames an import ... and never merges across differing visibility, attributes or attached comments"},
     assumptions=["UseTree values are built with the file's own parse_use_tree test helper plus direct field assignment (visibility, attrs, comment)"])

prop("C11", "Reordering is a deterministic, order-insensitive permutation", "exploration",
     ["U12", "U13", {"unit": "U33", "exclude": r"\(file_lines\)|has a line inside the selection|intersect the selection"}],
     [{"clause": "version_sort is a consistent total order on identifiers (reflexive, antisymmetric, transitive; Equal only for identical strings; agrees with the documented rules), incl. digit runs beyond usize", "status": "bounded", "by": "U12 (all pairs of identifiers <= 4/5 over {a,B,_,0,1,9}, all triples <= 2/3, permutations of 4-subsets)"},
      {"clause": "Ord for UseSegment / UseTree is a consistent total preorder for every style edition; imports that differ only in their alias rank equal and keep their relative order; sorting any permutation gives the same sequence", "status": "bounded", "by": "U13 (105 trees x 5 style editions: all pairs, all triples, all orderings of 3/4-subsets)"},
      {"clause": "mod / extern crate ordering: compare_items over REAL ast::Item values is a consistent total preorder per style edition (name, then not-renamed < renamed, then the rename; byte order <= 2021, version sort >= 2024); the real sorting statement gives the same sequence for every permutation", "status": "bounded", "by": "U33 (21 mod / 24 extern crate declarations x 5 style editions: all pairs, triples, permutations of 3-subsets)"},
      {"clause": "group boundaries: a run handed to the reordering rewriter holds declarations of ONE reorderable kind that is switched on, never a #[macro_use] item, a skipped item, an inline module or another kind, and never spans a blank line where groups are preserved; every item handled once, in source order", "status": "bounded", "by": "U33 (real visit_items_with_reordering / walk_reorderable_or_regroupable_items on real parsed items: all sequences <= 3/4 of 14 spellings x 4 separators x 12 configurations)"},
      {"clause": "attached attributes and comments travel with their element (rewrite_reorderable_or_regroupable_items' list formatting)", "status": "not_decided", "by": "-"}],
     "Comparator laws are statements about all pairs/triples/permutations; both comparators are string code outside Verus/Kani (Kani does not terminate on 2-byte symbolic strings, measured), so they are enumerated on the natively compiled real text over a stated universe.",
     statement_clauses={"U33": "items are only permuted within a group delimited by blank lines, #[macro_use] items, skipped items or items of another kind; the comparison used is a consistent total preorder", "U12": "the comparison used is a consistent total preorder ... the version-sort of 2024", "U13": "every permutation of a group formats to the same text (imports that differ only in their alias are ranked equal and keep their relative order)"})

PROPS["C13"]["statement_clauses"]["U17"] = "except modules or files that are skipped, matched by `ignore`, marked @generated when generated files are excluded, or any child when skip_children is set or the input is standard input"
PROPS["C20"]["statement_clauses"]["U25"] = "When rustfmt rewrites a file with --backup ..."

# ------------------------------------------------------------------ MANIFEST texts
T_V = "contract-based deductive verification: Verus on mechanically extracted real functions"
T_K = "contract-based verification: Kani harnesses over full-domain symbolic inputs on extracted loop-free real functions (complete)"
T_B = "bounded-exhaustive contract checking of the natively compiled real function text (stand-in, labelled bounded)"
MANIFEST_TEXT = {
    "C01": {"text": "Only the leaves: modifier keyword tables proved complete with Kani (and re-checked on the real rustc_ast enums), extern ABI / visibility / literal re-spelling / macro metavariable substitution checked bounded-exhaustively against rustc_lexer. Token preservation by the rewriters (the bulk of C01) is NOT decided.",
            "note": "shim enums mirror rustc_ast variants (a missing variant would not compile); RewriteContext/Shape shims for the literal functions; one recorded known finding (placeholder collisions)", "technique": T_K + " + " + T_B},
    "C02": {"text": "Whole-program idempotence is NOT decided. Decided, bounded-exhaustively, are the fixed-point postconditions f(f(x)) == f(x) of the mechanisms the anchors call fixed points: newline conversion, blank-line clamp, trailing-newline truncation, trailing-blank removal, literal re-spelling, range normalisation, import normalisation/merging (U14), comment rewriting (U32: six known findings, all under wrap_comments / normalize_comments).",
            "note": "each obligation is a clause of another unit re-used under C02 by an obligation filter; the composition of rewriters is unverified surroundings", "technique": T_B},
    "C03": {"text": "Bounded-exhaustive contract checks of the comment/code segmentation (CharClasses, *CodeSlices, LineClasses) against the real rustc_lexer and of the lost-comment safety net (changed_comment_content, CommentReducer, recover_comment_removed). Comment re-wrapping / normalisation (the real rewrite_comment) keeps the word sequence of every comment on a stated domain (U32). Comment placement by the list/block rewriters is NOT decided.",
            "note": "rustc_lexer is the reference; RewriteContext/ParseSess shims for recover_comment_removed; recorded known findings (U10, U11, U32)", "technique": T_B},
    "C04": {"text": "Opt-out decision table proved (Kani, complete) and exercised end-to-end through the real format_project on recording shims; @generated search limit, skip-name scoping and the recorded skipped-line range enumerated. Per-node verbatim copying in the rewriters is NOT decided.",
            "note": "Parser / ModResolver / emitter are recording shims; contains_skip is a harness-chosen bit; one recorded known finding (stdin + @generated, pinned by an existing test)", "technique": T_K + " + " + T_B},
    "C05": {"text": "Exit-status and error-folding clauses proved (Kani, complete) on the extracted statements of bin/main.rs and Session; 'a file is only replaced by its complete formatted text, only if it differs' enumerated on the real FilesEmitter against a recording FS model. That every input fault is detected before the first write is NOT decided.",
            "note": "Kani/CBMC, extractor; Session/Config shims; FS model; rustc parser, ModResolver and format_project ordering are unverified surroundings", "technique": T_K + " + " + T_B},
    "C06": {"text": "--check exit formula proved (Kani, complete); files/stdout emitter behaviour and the create_emitter table enumerated completely on the real text; token-level frame scan shows the non-files emitters name no file-system API. mtime and stdin-vs-path equality not decided.",
            "note": "Kani/CBMC, extractor; FS model; frame scan assumes FS mutation is only reachable through the scanned std names", "technique": T_K + " + " + T_B + " + frame scan"},
    "C07": {"text": "The C07 sentence is transcribed as a spec function; Verus proves the verbatim FormatLines step functions against it and the fold for texts of unbounded length, all usize configurations (tab_spaces >= 1). The real iterate/CharClasses/is_skipped_line/track_errors are tied to the same spec bounded-exhaustively.",
            "note": "Verus/Z3, extractor; 10-line driver loop restated (CharClasses is outside Verus); contains_line and is_skipped_line assumed in V and checked in B; char kinds taken from CharClasses", "technique": T_V + " + " + T_B},
    "C08": {"text": "Newline-style conversion, indentation text and the blank-line clamp are checked bounded-exhaustively on the real text (stated bounds); Indent/Shape arithmetic invariants are proved (Verus/Kani). List-internal blank lines and the leading-blank-line clause are not decided.",
            "note": "FmtVisitor/Config shims; precondition no CR before CRLF; string-walking code is outside Verus/Kani (measured)", "technique": T_B + " + " + T_V},
    "C14": {"text": "Default-selection precedence, width clamping, Max/Off tables and deprecated-alias mapping proved with Kani on the verbatim create_config! helper functions; loader orchestration and file-name preference enumerated natively. Literal clause 'heuristic widths never exceed max_width' is a recorded known finding (F3).",
            "note": "Config shim; TOML loaders are recording stand-ins; per-option macro code and directory walk not decided", "technique": T_K + " + " + T_B},
    "C09": {"text": "Clause 1 (2015/2018/2021 identical) by non-interference: a whole-src token scan shows every style-edition comparison is constant on the three old editions and the default table groups them; the order relied on is enumerated completely on the real PartialOrd impl. Clause 2 (byte-identity with the pinned release) is not decided.",
            "note": "frame scan is lexical (complete for what it states); assumes the style edition is only observed through the scanned forms", "technique": "mechanical frame scan (non-interference) + complete enumeration of the real StyleEdition order"},
    "C13": {"text": "Only the consumer side: given the list produced by module resolution, the real format_project formats exactly the non-excluded entries, each once, in order (complete enumeration over event-recording shims, <= 2 files). The reachability rules (ModResolver) — the larger half of the property — are NOT decided.",
            "note": "ModResolver, ParseSess, Parser are shims; exclusion predicate is a harness-chosen boolean here (its real table: U17)", "technique": T_B},
    "C10": {"text": "Bounded-exhaustive contract check of the real import merge/flatten/normalize/group functions against an independent expansion of a use-tree into its (attributes, visibility, path, alias) leaves, for grammar-generated lists of <= 2/3 trees x all 5 granularities. Several classes of genuine violations (imports_granularity) are recorded as known findings; one was repaired.",
            "note": "UseTree::from_ast and the rewrite to text are not extracted; trees are built with the file's own test parser; real rustc visibility/attribute types", "technique": T_B},
    "C11": {"text": "Comparator laws (reflexive, antisymmetric, transitive, Equal only for identical elements, permutation-invariance of sort, alias rule, 2015=2018=2021) enumerated over all pairs / triples / permutations of a stated universe on the real version_sort and the real Ord impls of UseSegment/UseTree. The real compare_items / sorting statement / grouping walk (visit_items_with_reordering) are enumerated on real parsed ast::Items (U33). How attributes and comments travel with a moved element is not decided.",
            "note": "string comparators are outside Verus/Kani (measured); universe sizes stated in the evidence", "technique": T_B},
    "C12": {"text": "The property's own exhaustive quantifier (all pairs of line sequences <= 5 over {\"\",a,b}, final newline y/n, context 0..3) is enumerated completely on the real diff/report code with independent oracles (apply-chunks, re-parse, line-number consistency, XML/JSON well-formedness). Bounded stand-in: no deductive back end reaches this String/iterator code.",
            "note": "diff crate and serde_json trusted; Config shim (color, verbose); two recorded known findings for the checkstyle report", "technique": T_B},
    "C15": {"text": "Only the inter-file session state is within reach: ReportedErrors::add is a field-wise OR, exit status of a multi-file run is the max of the single statuses, override_config restores the config — all proved by Kani over fully symbolic inputs (loop-free, complete). Determinism of the formatter proper is not decided.",
            "note": "Kani/CBMC, extractor; Session shim with the real fields; Session::format is a harness-chosen outcome", "technique": T_K},
    "C16": {"text": "Verus discharges machine-integer overflow obligations on the verbatim text of the contracted integer functions for all inputs; bounded native units catch any panic on their enumerated domains (labelled bounded). Parser/catch_unwind/stack clauses are not decided.",
            "note": "Verus/Z3, extractor, 64-bit usize; std::cmp::{min,max} usize shims; everything outside the contracted functions is unverified surroundings", "technique": T_V + " + " + T_B},
    "C17": {"text": "Range algebra proved in Verus against a set-of-lines view (union semantics of merge/adjacent/intersects, all usize); the FileLines container is checked bounded-exhaustively on the real file text; the file_lines guard of the import/module reordering walk is enumerated on real parsed items (U33). The other visitor-side uses of the guard are not decided.",
            "note": "Verus/Z3, extractor; HashMap/iterator/serde code only bounded; SourceMap line lookup unverified", "technique": T_V + " + " + T_B},
    "C18": {"text": "Bounded-exhaustive contract check of the real cargo-fmt text: status fold over all real wait statuses (vectors <= 2, representatives <= 3) and real child processes, edition grouping / argument vectors over all lists of <= 4 targets with a recording Command shim, Target identity laws, strategy table; target discovery (real get_targets* over the real `cargo metadata`) on generated workspace trees for every working directory / manifest path (U34; four known findings).",
            "note": "process spawning shimmed (and additionally exercised for real in 9 scenarios); the sandbox's cargo (metadata) and clap trusted", "technique": T_B},
    "C19": {"text": "Bounded-exhaustive contract check of the real scan_diff/run_rustfmt text against an independent regex-free reading of the diff (all line sequences <= 3/4 over 16 shapes x -p 0..3 x 4 filters; recording process shim).",
            "note": "regex crate trusted; line numbers <= 2^31; stdin reading and clap not decided", "technique": T_B},
    "C20": {"text": "Complete enumeration of fault points (operation index x {fails clean, fails after partial write, crash after, crash after partial write}) of the loop-free effect sequence of the real FilesWithBackupEmitter text against a recording file-system model; invariant checked after every operation.",
            "note": "FS model (write non-atomic, rename atomic) is assumed; contents from 4 short texts; Verus/Kani cannot execute Path/dyn Write code (measured), so this is native enumeration, not proof", "technique": "fault enumeration of the real function text against a file-system model (bounded stand-in for a contract proof)"},
}
_PLANNED = {"C01": "U18 keyword/literal tables", "C02": "fixed-point clauses via U08/U09/U13/U14", "C03": "U10 lexclass + U11 safetynet", "C04": "U17 skip decision table",
            "C08": "U07/U08/U09 whitespace units", "C09": "U20 style-edition gate scan", "C10": "U14 usemerge", "C11": "U12/U13 comparators", "C12": "U15 diff",
            "C13": "U17 exclusion table", "C14": "U19 config", "C18": "U21 cargo-fmt", "C19": "U22 scan_diff"}
NOT_APPLICABLE = [{"property_id": k, "reason": "not claimed at this commit: the unit that carries it (%s, DESIGN.md §3) is not built yet" % v}
                  for k, v in sorted(_PLANNED.items()) if k not in PROPS]
