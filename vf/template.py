"""Template expansion: a unit template is a Rust/Verus file with //@ directives that pull the *real*
text of items out of /repo and splice ghost text (contracts) into it.

Directives (each starts a line, leading blanks allowed):

  //@item <selector> [nopub] [derive=A,B,..] [derive+=A,..] [keepattrs] [drop=debug,trace] [from_core]
        copy an item (struct / enum / impl / const / fn without contract) verbatim, rules D1-D3
  //@file <relpath>
        copy a whole file (D6: inner attributes dropped)
  //@fn <selector> [nopub] [drop=debug,trace]
  //@ret <name>                       name the return value  (-> T   becomes   -> (name: T))
  //@attrs / //@spec / //@enter / //@loop N / //@inloop N / //@afterloop N / //@before N `toks` / //@after N `toks`
        the following template lines (until the next //@ directive) are ghost text inserted
        before the fn / before the body's `{` / before the N-th loop body's `{` / first thing inside the N-th loop body / right behind the N-th loop /
        before|after the N-th occurrence of the token sequence in the body
  //@end

Everything else is template text, copied as is.

The expander returns the generated text plus metadata: for every extracted item its selector, source
line, token hash, the drops applied, and the line range it occupies in the generated file.  The
ghost-only check re-lexes each generated item with the recorded ghost insertions removed and compares
the executable token stream with the source item's (minus the tokens dropped by rule).
"""
import re, os
from .rustlex import lex, TRIVIA, Tok
from .extract import select, match_close, LostAnchor, token_hash, SourceFile, Item, parse_items

ALLOWED_DERIVES = ["Clone", "Copy", "PartialEq", "Eq", "PartialOrd", "Ord", "Debug", "Default", "Hash"]


class Seg:
    __slots__ = ("text", "origin")

    def __init__(self, text, origin):
        self.text, self.origin = text, origin  # origin: src | ghost | vis


class GenItem:
    def __init__(self):
        self.selector = None; self.file = None; self.src_line = None; self.hash = None
        self.drops = []; self.kind = None; self.name = None
        self.gen_start_line = None; self.gen_end_line = None
        self.contract = False
        self.ghost_lines = {}  # generated line -> clause text


class TemplateError(Exception):
    pass


def _sig(toks):
    return [t for t in toks if t.kind not in TRIVIA]


def _find_attr_ranges(toks, start, end):
    """yield (i_hash, i_close_bracket) for every outer attribute #[..] in toks[start:end]."""
    i = start
    out = []
    while i < end:
        t = toks[i]
        if t.kind == "punct" and t.text == "#":
            k = i + 1
            while k < end and toks[k].kind in TRIVIA: k += 1
            inner = False
            if k < end and toks[k].text == "!":
                inner = True
                k += 1
                while k < end and toks[k].kind in TRIVIA: k += 1
            if k < end and toks[k].text == "[":
                c = match_close(toks, k)
                out.append((i, c, inner)); i = c + 1; continue
        i += 1
    return out


def _apply_rules(toks, start, end, opts, drops, is_traitimpl=False, whole_file=False):
    """Return list of Seg for toks[start:end] with D1 (pub), D2 (attributes), D3 (debug macros) applied.
    Splice insertions are handled by the caller via `inserts` {tokidx: [text,..]} (before that token)."""
    keepattrs = "keepattrs" in opts
    nopub = "nopub" in opts or is_traitimpl
    dropmacros = [m for m in opts.get("drop", "").split(",") if m]
    skip = set()       # token indices erased
    replace = {}       # token index -> replacement text (origin vis)
    prefix = {}        # token index -> text inserted before (origin vis)
    # D2 attributes
    for (a, c, inner) in _find_attr_ranges(toks, start, end):
        if whole_file:
            if inner:
                for q in range(a, c + 1): skip.add(q)
                drops.append("D6 inner attribute dropped: " + "".join(t.text for t in toks[a:c + 1])[:60])
            continue
        if keepattrs: continue
        sig = _sig(toks[a:c + 1])
        words = [t.text for t in sig]
        if len(words) > 3 and words[2] == "derive" and not inner:
            if "derive" in opts:
                lst = [d for d in opts["derive"].split(",") if d]
            else:
                lst = [w for w in words[4:-2] if w in ALLOWED_DERIVES]
                lst += [d for d in opts.get("derive+", "").split(",") if d]
            for q in range(a, c + 1): skip.add(q)
            if lst:
                replace[a] = "#[derive(" + ", ".join(lst) + ")]"
                skip.discard(a)
            orig = [w for w in words[4:-2] if w != ","]
            if orig != lst:
                drops.append("D2 derive list %s -> %s" % (orig, lst))
        elif len(words) > 2 and words[2] == "cfg" and "test" in words:
            # #[cfg(test)] items are never part of an extraction
            for q in range(a, c + 1): skip.add(q)
        else:
            for q in range(a, c + 1): skip.add(q)
            drops.append("D2 attribute erased: " + "".join(t.text for t in toks[a:c + 1])[:60])
    if "derive" in opts and opts["derive"] and not whole_file and not any(v.startswith("#[derive(") for v in replace.values()):
        # the item had no derive list of its own (e.g. it relies on #[config_type]): state the derives the harness needs
        core = start
        while core < end and (toks[core].kind in TRIVIA or core in skip): core += 1
        prefix[core] = "#[derive(" + ", ".join(d for d in opts["derive"].split(",") if d) + ")]\n" + prefix.get(core, "")
        drops.append("D2 derive list added in place of erased attribute macro: " + opts["derive"])
    # D3 debug macros
    if dropmacros:
        i = start
        while i < end:
            t = toks[i]
            if t.kind == "ident" and t.text in dropmacros and i not in skip:
                k = i + 1
                while k < end and toks[k].kind in TRIVIA: k += 1
                if k < end and toks[k].text == "!":
                    k += 1
                    while k < end and toks[k].kind in TRIVIA: k += 1
                    if k < end and toks[k].text in "([{":
                        c = match_close(toks, k)
                        k2 = c + 1
                        while k2 < end and toks[k2].kind in TRIVIA: k2 += 1
                        last = k2 if (k2 < end and toks[k2].text == ";") else c
                        for q in range(i, last + 1): skip.add(q)
                        drops.append("D3 statement erased: %s!(..)" % t.text)
                        i = last + 1; continue
            i += 1
    # D1 visibility
    if not nopub and not whole_file:
        _normalise_pub(toks, start, end, skip, replace, prefix, drops)
    return skip, replace, prefix


def _normalise_pub(toks, start, end, skip, replace, prefix, drops):
    """make the item, its fields and (for inherent impls) its fns `pub`."""
    sig_idx = [i for i in range(start, end) if toks[i].kind not in TRIVIA and i not in skip]
    if not sig_idx: return

    def make_pub_at(pos_in_sig):
        """ensure a plain `pub` at sig_idx[pos_in_sig]; returns nothing"""
        i = sig_idx[pos_in_sig]
        if toks[i].text == "pub":
            # pub(crate) / pub(super) / pub(in ..)
            if pos_in_sig + 1 < len(sig_idx) and toks[sig_idx[pos_in_sig + 1]].text == "(":
                nxt = toks[sig_idx[pos_in_sig + 2]].text if pos_in_sig + 2 < len(sig_idx) else ""
                if nxt in ("crate", "super", "in", "self"):
                    o = sig_idx[pos_in_sig + 1]
                    c = match_close(toks, o)
                    for q in range(o, c + 1): skip.add(q)
                    drops.append("D1 visibility normalised: pub(%s) -> pub" % nxt)
            return
        prefix[i] = prefix.get(i, "") + "pub "
        if "D1 visibility normalised: private -> pub" not in drops:
            drops.append("D1 visibility normalised: private -> pub")

    # item-level
    # first significant token after attributes
    p = 0
    # skip attribute remnants (they're in skip or replaced); find first token that is not '#'-attr
    while p < len(sig_idx) and toks[sig_idx[p]].text == "#":
        # replaced derive attr: skip to its close bracket
        o = sig_idx[p]
        k = o + 1
        while toks[k].kind in TRIVIA or toks[k].text == "!": k += 1
        c = match_close(toks, k)
        while p < len(sig_idx) and sig_idx[p] <= c: p += 1
    if p >= len(sig_idx): return
    first = toks[sig_idx[p]].text
    words = [toks[i].text for i in sig_idx[p:p + 6]]
    kw = None
    for w in words:
        if w in ("fn", "struct", "enum", "impl", "const", "static", "type", "trait", "mod", "union", "use", "macro_rules"):
            kw = w; break
    if kw in ("fn", "struct", "enum", "const", "static", "type", "trait", "union"):
        make_pub_at(p)
    if kw in ("struct", "union"):
        # fields: inside first {...} or (...) group at depth 0
        d = 0
        kwpos = p
        while toks[sig_idx[kwpos]].text != kw: kwpos += 1
        for q in range(kwpos, len(sig_idx)):
            t = toks[sig_idx[q]]
            if t.text in ("{", "(") and d == 0:
                o = sig_idx[q]; c = match_close(toks, o)
                _pub_fields(toks, o, c, skip, make_pub_at, sig_idx)
                break
            if t.text == "<": d += 1
            if t.text == ">": d -= 1
            if t.text == ";": break
    if kw == "impl":
        hdr = []
        for q in range(p, len(sig_idx)):
            if toks[sig_idx[q]].text == "{": break
            hdr.append(toks[sig_idx[q]].text)
        if "for" in hdr: return
        # each fn / const at depth 1 in the impl body
        for q in range(p, len(sig_idx)):
            if toks[sig_idx[q]].text == "{":
                o = sig_idx[q]; c = match_close(toks, o)
                its = parse_items(toks, o + 1, c)
                for it in its:
                    if it.kind in ("fn", "const", "type"):
                        pos = sig_idx.index(it.core) if it.core in sig_idx else None
                        if pos is not None: make_pub_at(pos)
                break


def _pub_fields(toks, o, c, skip, make_pub_at, sig_idx):
    # a field starts right after `o` or after a ',' at depth 1; attributes are already skipped/erased
    d = 0
    expect = True
    angle = 0
    for q, i in enumerate(sig_idx):
        if i <= o: continue
        if i >= c: break
        t = toks[i]
        if expect:
            if t.text == "#":
                # kept attribute on a field: jump over it
                continue
            if t.text == "[" and d == 0:
                pass
            if d == 0 and t.kind in ("ident", "punct", "lifetime") and t.text not in (",",):
                if t.text == "[" or t.text == "]" or t.text == "#":
                    pass
                else:
                    make_pub_at(q)
                    expect = False
        if t.text in "([{": d += 1
        elif t.text in ")]}": d -= 1
        elif t.text == "<": angle += 1
        elif t.text == ">": angle = max(0, angle - 1)
        elif t.text == "," and d == 0 and angle == 0: expect = True


def parse_opts(words):
    opts = {}
    for w in words:
        if "+=" in w:
            k, v = w.split("+=", 1); opts[k + "+"] = v
        elif "=" in w:
            k, v = w.split("=", 1); opts[k] = v
        else:
            opts[w] = True
    return opts


def _emit(toks, start, end, skip, replace, prefix, inserts_before, inserts_after):
    segs = []
    for i in range(start, end):
        for txt in inserts_before.get(i, []):
            segs.append(Seg(txt, "ghost"))
        if i in prefix: segs.append(Seg(prefix[i], "vis"))
        if i in replace:
            segs.append(Seg(replace[i], "vis"))
        elif i not in skip:
            segs.append(Seg(toks[i].text, "src"))
        for txt in inserts_after.get(i, []):
            segs.append(Seg(txt, "ghost"))
    return segs


def _find_seq(toks, start, end, pattern, nth):
    pat = [t.text for t in lex(pattern) if t.kind not in TRIVIA]
    sig = [i for i in range(start, end) if toks[i].kind not in TRIVIA]
    hits = []
    for a in range(len(sig) - len(pat) + 1):
        if all(toks[sig[a + k]].text == pat[k] for k in range(len(pat))):
            hits.append((sig[a], sig[a + len(pat) - 1]))
    if nth >= len(hits):
        raise LostAnchor("splice anchor `%s` #%d not found (%d hits)" % (pattern, nth, len(hits)))
    return hits[nth]


def _loops(toks, o, c):
    """indices of `{` opening the body of each loop in toks[o:c], in source order."""
    out = []
    i = o
    while i < c:
        t = toks[i]
        if t.kind == "ident" and t.text in ("while", "for", "loop"):
            # `for` in `impl X for Y` / `for<'a>` does not occur inside fn bodies we extract
            d = 0
            k = i + 1
            while k < c:
                u = toks[k]
                if u.kind == "punct":
                    if u.text in "([": d += 1
                    elif u.text in ")]": d -= 1
                    elif u.text == "{" and d == 0:
                        out.append(k); break
                k += 1
        i += 1
    return out


class Expansion:
    def __init__(self):
        self.text = ""
        self.items = []      # GenItem
        self.drops = []
        self.trusted = []    # mechanical scan results
        self.lost = None


def expand(template_text, backend="verus"):
    lines = template_text.split("\n")
    out_segs = []  # list of (Seg | str)
    exp = Expansion()
    i = 0
    cur_line = 1

    def add_text(s):
        nonlocal cur_line
        out_segs.append(s)
        cur_line += s.count("\n")

    while i < len(lines):
        ln = lines[i]
        st = ln.strip()
        if not st.startswith("//@"):
            add_text(ln + "\n"); i += 1; continue
        parts = st[3:].split()
        cmd = parts[0]
        if cmd in ("item", "file", "fn"):
            # selector runs until first option word (options have no '::' and come last)
            rest = st[3 + len(cmd):].strip()
            # options: trailing words that are known option names
            words = rest.split()
            optwords = []
            while words and re.match(r"^(nopub|keepattrs|from_core|derive\+?=.*|drop=.*|as=.*|strip_tests|optional|inline_mods)$", words[-1]):
                optwords.insert(0, words.pop())
            selector = " ".join(words)
            opts = parse_opts(optwords)
            gi = GenItem(); gi.selector = selector
            if cmd == "file":
                sf = SourceFile.get(selector)
                toks = sf.toks
                drops = []
                skip, replace, prefix = _apply_rules(toks, 0, len(toks), opts, drops, whole_file=True)
                if "strip_tests" in opts:
                    # drop `#[cfg(test)] mod X { .. }` items (their dev-dependencies are not available)
                    for it in sf.items:
                        if it.kind == "mod":
                            attrs = "".join(t.text for t in toks[it.full_start:it.core])
                            if "cfg(test)" in attrs.replace(" ", ""):
                                for q in range(it.full_start, it.end): skip.add(q)
                                drops.append("D6 #[cfg(test)] mod %s dropped" % it.name)
                if "inline_mods" in opts:
                    # D7: an out-of-line child module `mod name;` of the file is replaced by `mod name { <the child file, same rules> }`
                    # (the harness crate has no directory for it); the child file is looked up as <dir>/name.rs, then <dir>/name/mod.rs
                    def _child_text(parent_rel, name):
                        d = os.path.dirname(parent_rel)
                        if os.path.basename(parent_rel) not in ("mod.rs", "lib.rs", "main.rs"): d = os.path.join(d, os.path.splitext(os.path.basename(parent_rel))[0])
                        for cand in (os.path.join(d, name + ".rs"), os.path.join(d, name, "mod.rs")):
                            try: return cand, SourceFile.get(cand)
                            except Exception: continue
                        raise LostAnchor("inline_mods: no file for `mod %s;` of %s" % (name, parent_rel))
                    def _inline(rel, csf):
                        ctoks = csf.toks
                        cdrops = []
                        cskip, crep, cpre = _apply_rules(ctoks, 0, len(ctoks), opts, cdrops, whole_file=True)
                        for it2 in csf.items:
                            if it2.kind != "mod": continue
                            attrs2 = "".join(t.text for t in ctoks[it2.full_start:it2.core]).replace(" ", "")
                            if "cfg(test)" in attrs2:
                                if "strip_tests" in opts:
                                    for q in range(it2.full_start, it2.end): cskip.add(q)
                                continue
                            if it2.body_range() is None:
                                crel, ccsf = _child_text(rel, it2.name)
                                semi = it2.end - 1
                                while semi > it2.core and ctoks[semi].text != ";": semi -= 1
                                crep[semi] = " {\n" + _inline(crel, ccsf) + "\n}"
                                drops.append("D7 `mod %s;` of %s inlined from %s" % (it2.name, rel, crel))
                        return "".join(sg.text for sg in _emit(ctoks, 0, len(ctoks), cskip, crep, cpre, {}, {}))
                    for it in sf.items:
                        if it.kind == "mod" and it.body_range() is None and not any(q in skip for q in range(it.full_start, it.end)):
                            crel, csf = _child_text(selector, it.name)
                            semi = it.end - 1
                            while semi > it.core and toks[semi].text != ";": semi -= 1
                            replace[semi] = " {\n" + _inline(crel, csf) + "\n}"
                            drops.append("D7 `mod %s;` of %s inlined from %s" % (it.name, selector, crel))
                segs = _emit(toks, 0, len(toks), skip, replace, prefix, {}, {})
                gi.file = selector; gi.kind = "file"; gi.name = selector; gi.src_line = 1
                gi.hash = token_hash([t.text for q, t in enumerate(toks) if t.kind not in TRIVIA and q not in skip])
                gi.drops = drops
                gi.gen_start_line = cur_line
                txt = "".join(s.text for s in segs)
                add_text(txt + "\n")
                gi.gen_end_line = cur_line
                exp.items.append(gi)
                i += 1; continue
            try:
                sf, it = select(selector)
            except LostAnchor:
                # `optional`: a helper that the code under contract may stop using; its absence is recorded, not an error (plain items only)
                if "optional" in opts and cmd == "item":
                    exp.drops.append("optional item absent in this tree: " + selector)
                    i += 1; continue
                raise
            toks = sf.toks
            gi.file = sf.rel; gi.kind = it.kind; gi.name = it.name or " ".join(it.header[:6])
            gi.src_line = sf.line_of(it.core)
            is_traitimpl = False
            # is the *enclosing* impl a trait impl?  (selector path contains `impl .. for ..`)
            for seg in re.split(r"\s+::\s+", selector)[1:-1]:
                if seg.startswith("impl ") and " for " in seg: is_traitimpl = True
            drops = []
            start = it.core if ("from_core" in opts) else it.full_start
            skip, replace, prefix = _apply_rules(toks, start, it.end, opts, drops, is_traitimpl=is_traitimpl)
            inserts_before, inserts_after = {}, {}
            i += 1
            if cmd == "fn":
                gi.contract = True
                br = it.body_range()
                if br is None: raise LostAnchor("fn without body: " + selector)
                o, c = br
                section = None
                secargs = None
                buf = []
                ret_name = None

                def flush():
                    nonlocal buf
                    if section is None or not buf:
                        buf = []; return
                    txt = "\n".join(buf) + "\n"
                    if section == "attrs":
                        inserts_before.setdefault(it.core, []).append(txt)
                    elif section == "spec":
                        inserts_before.setdefault(o, []).append("\n" + txt)
                    elif section == "enter":
                        # first thing inside the body (robust against edits of the body: no token anchor needed)
                        inserts_after.setdefault(o, []).append("\n" + txt)
                    elif section == "loop":
                        lp = _loops(toks, o + 1, c)
                        n = int(secargs[0])
                        if n >= len(lp): raise LostAnchor("loop #%d not found in %s" % (n, selector))
                        inserts_before.setdefault(lp[n], []).append("\n" + txt)
                    elif section in ("inloop", "afterloop"):
                        # first thing inside the N-th loop's body / right behind the N-th loop (no token anchor needed)
                        lp = _loops(toks, o + 1, c)
                        n = int(secargs[0])
                        if n >= len(lp): raise LostAnchor("loop #%d not found in %s" % (n, selector))
                        if section == "inloop": inserts_after.setdefault(lp[n], []).append("\n" + txt)
                        else: inserts_after.setdefault(match_close(toks, lp[n]), []).append("\n" + txt)
                    elif section in ("before", "after"):
                        m = re.match(r"^\s*(\d+)\s+`(.*)`\s*$", " ".join(secargs))
                        if not m: raise TemplateError("bad anchor: " + " ".join(secargs))
                        a, b = _find_seq(toks, o + 1, c, m.group(2), int(m.group(1)))
                        if section == "before": inserts_before.setdefault(a, []).append(txt)
                        else: inserts_after.setdefault(b, []).append("\n" + txt)
                    buf = []

                while i < len(lines):
                    s2 = lines[i].strip()
                    if s2.startswith("//@"):
                        p2 = s2[3:].split()
                        flush()
                        if p2[0] == "end": i += 1; break
                        if p2[0] == "ret": ret_name = p2[1]; section = None
                        elif p2[0] in ("attrs", "spec", "enter", "loop", "inloop", "afterloop", "before", "after"):
                            section = p2[0]; secargs = s2[3 + len(p2[0]):].strip().split(" ")
                        else:
                            raise TemplateError("unknown directive in fn block: " + s2)
                    else:
                        buf.append(lines[i])
                    i += 1
                if ret_name:
                    # find `->` at depth 0 between core and o
                    d = 0; arrow = None
                    for q in range(it.core, o):
                        t = toks[q]
                        if t.kind == "punct":
                            if t.text in "([": d += 1
                            elif t.text in ")]": d -= 1
                            elif t.text == "->" and d == 0: arrow = q
                    if arrow is None: raise LostAnchor("no return type to name in " + selector)
                    # return type ends at `where` (depth 0) or at o
                    endq = o
                    for q in range(arrow, o):
                        if toks[q].kind == "ident" and toks[q].text == "where": endq = q; break
                    # first/last significant token of the type
                    sigq = [q for q in range(arrow + 1, endq) if toks[q].kind not in TRIVIA]
                    inserts_before.setdefault(sigq[0], []).append("(" + ret_name + ": ")
                    inserts_after.setdefault(sigq[-1], []).append(")")
            segs = _emit(toks, start, it.end, skip, replace, prefix, inserts_before, inserts_after)
            # ghost-only check
            exec_txt = "".join(s.text for s in segs if s.origin == "src")
            got = [t.text for t in lex(exec_txt) if t.kind not in TRIVIA]
            want = [toks[q].text for q in range(start, it.end) if toks[q].kind not in TRIVIA and q not in skip and q not in replace]
            if got != want:
                raise TemplateError("ghost-only splice check failed for " + selector)
            gi.hash = token_hash(want)
            gi.drops = drops
            gi.gen_start_line = cur_line
            txt = "".join(s.text for s in segs)
            # record ghost lines
            add_text(txt + "\n")
            gi.gen_end_line = cur_line
            exp.items.append(gi)
            continue
        raise TemplateError("unknown directive: " + st)
    exp.text = "".join(out_segs)
    for gi in exp.items:
        for d in gi.drops:
            if d not in exp.drops: exp.drops.append(d)
    # mechanical scan for trusted constructs
    for m in re.finditer(r"(external_body|assume_specification|\badmit\s*\(|\bassume\s*\(|kani::stub\b|kani::assume|external_fn_specification|#\[verifier::external\b|uninterp)", exp.text):
        ln = exp.text.count("\n", 0, m.start()) + 1
        line_txt = exp.text.split("\n")[ln - 1].strip()
        kind = m.group(1).strip("( ")
        if kind in ("external_body", "assume_specification", "uninterp", "external_fn_specification", "#[verifier::external"):
            ctx = re.search(r"fn\s+(\w+)", exp.text[m.start():m.start() + 400])      # attribute precedes its fn
            name = ctx.group(1) if ctx else None
        else:
            prev = re.findall(r"fn\s+(\w+)", exp.text[:m.start()])                       # statement inside a fn
            name = prev[-1] if prev else None
        exp.trusted.append("%s @gen:%d %s" % (kind, ln, ("fn " + name) if name else line_txt[:60]))
    exp.trusted = sorted(set(exp.trusted), key=lambda t: int(re.search(r"@gen:(\d+)", t).group(1)))
    return exp
