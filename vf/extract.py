"""Mechanical extraction of items from /repo sources.

An Item is a contiguous token range [full_start, end) of a file; `core` is the index of its first
non-attribute token.  Items nest: impl/mod/trait bodies and macro_rules bodies can be searched again.
"""
import hashlib, os, re
from .rustlex import lex, TRIVIA, Tok

REPO = os.environ.get("VERIF_REPO", "/repo")

OPEN, CLOSE = "([{", ")]}"
BODY_KINDS = {"fn", "impl", "struct", "enum", "trait", "mod", "union", "macro_rules", "extern_block", "macro_call"}


class LostAnchor(Exception):
    pass


class Item:
    def __init__(self, toks, full_start, core, end, kind, name, header):
        self.toks, self.full_start, self.core, self.end = toks, full_start, core, end
        self.kind, self.name, self.header = kind, name, header

    def text(self, from_core=False):
        return "".join(t.text for t in self.toks[(self.core if from_core else self.full_start):self.end])

    def body_range(self):
        """token index range (open_brace_idx, close_brace_idx) of the first top-level {...} group."""
        d = 0
        for i in range(self.core, self.end):
            t = self.toks[i]
            if t.kind != "punct": continue
            if t.text in OPEN:
                if d == 0 and t.text == "{":
                    return i, match_close(self.toks, i)
                d += 1
            elif t.text in CLOSE:
                d -= 1
        return None

    def line(self):
        pos = self.toks[self.core].pos
        return pos


def match_close(toks, i):
    d = 0
    for j in range(i, len(toks)):
        t = toks[j]
        if t.kind == "punct":
            if t.text in OPEN: d += 1
            elif t.text in CLOSE:
                d -= 1
                if d == 0: return j
    raise LostAnchor("unbalanced group")


def _skip_trivia(toks, i, end):
    while i < end and toks[i].kind in TRIVIA: i += 1
    return i


def parse_items(toks, start, end, limit=None):
    """Parse the items in toks[start:end] (a file, or the inside of a {...} body)."""
    items = []
    i = start
    while True:
        # full_start: include doc comments and attributes directly preceding the item
        i = _skip_ws_only(toks, i, end)
        if i >= end: break
        full_start = i
        # skip attributes and comments
        j = i
        while j < end:
            t = toks[j]
            if t.kind in TRIVIA: j += 1; continue
            if t.kind == "punct" and t.text == "#":
                k = _skip_trivia(toks, j + 1, end)
                if k < end and toks[k].text == "!": k = _skip_trivia(toks, k + 1, end)
                if k < end and toks[k].text == "[":
                    j = match_close(toks, k) + 1; continue
            break
        if j >= end: break
        core = j
        # classify
        k = core
        words = []
        while k < end and len(words) < 8:
            t = toks[k]
            if t.kind in TRIVIA: k += 1; continue
            if t.kind == "ident" or t.kind == "str":
                words.append((t.text, k)); k += 1
                # pub(crate)
                if t.text == "pub":
                    k2 = _skip_trivia(toks, k, end)
                    if k2 < end and toks[k2].text == "(":
                        k = match_close(toks, k2) + 1
                continue
            if t.kind == "punct" and t.text == "!":
                words.append(("!", k)); k += 1; continue
            break
        kind, name = None, None
        wl = [w for w, _ in words]
        mods = {"pub", "unsafe", "async", "default", "extern", "crate"}
        idx = 0
        while idx < len(wl) and (wl[idx] in mods or wl[idx].startswith('"') or (wl[idx] == "const" and idx + 1 < len(wl) and wl[idx + 1] in ("fn", "unsafe", "async", "extern"))):
            idx += 1
        if idx < len(wl):
            w = wl[idx]
            if w in ("fn", "struct", "enum", "trait", "mod", "union", "type", "const", "static", "use", "impl"):
                kind = w
                name = wl[idx + 1] if idx + 1 < len(wl) and w != "impl" else None
                if w in ("const", "static") and name == "mut":
                    name = wl[idx + 2] if idx + 2 < len(wl) else None
            elif w == "macro_rules" and idx + 1 < len(wl) and wl[idx + 1] == "!":
                kind = "macro_rules"; name = wl[idx + 2] if idx + 2 < len(wl) else None
            elif idx + 1 < len(wl) and wl[idx + 1] == "!":
                kind = "macro_call"; name = w
        if kind is None and idx > 0 and "extern" in wl[:idx]:
            # `extern crate x;` handled: 'crate' is in mods -> next word is name
            if "crate" in wl[:idx]:
                kind = "extern_crate"; name = wl[idx] if idx < len(wl) else None
            else:
                kind = "extern_block"
        if kind is None:
            kind = "other"
        # find end
        d = 0
        e = core
        endidx = None
        while e < end:
            t = toks[e]
            if t.kind == "punct":
                if t.text in OPEN:
                    if d == 0 and t.text == "{" and kind in BODY_KINDS:
                        endidx = match_close(toks, e) + 1
                        # macro_call like foo! { ... } or foo!(...); handled below
                        break
                    d += 1
                elif t.text in CLOSE:
                    d -= 1
                    if d < 0: raise LostAnchor("unbalanced while parsing item")
                    if d == 0 and kind in ("macro_call", "macro_rules") and t.text in ")]":
                        # foo!(...) ; -- include trailing semicolon if present
                        k2 = _skip_trivia(toks, e + 1, end)
                        endidx = k2 + 1 if k2 < end and toks[k2].text == ";" else e + 1
                        break
                elif t.text == ";" and d == 0:
                    endidx = e + 1; break
            e += 1
        if endidx is None:
            endidx = end
        # header: normalised text between core and first '{' / ';'
        hdr = []
        d = 0
        for q in range(core, endidx):
            t = toks[q]
            if t.kind in TRIVIA: continue
            if t.kind == "punct" and t.text == "{" and d == 0: break
            if t.kind == "punct" and t.text == ";" and d == 0: break
            if t.kind == "punct" and t.text in "([": d += 1
            if t.kind == "punct" and t.text in ")]": d -= 1
            hdr.append(t.text)
        items.append(Item(toks, full_start, core, endidx, kind, name, hdr))
        if limit is not None and len(items) >= limit: break
        i = endidx
    return items


def _skip_ws_only(toks, i, end):
    while i < end and toks[i].kind == "ws": i += 1
    return i


def _strip_generics(words):
    out, d = [], 0
    for w in words:
        if w == "<": d += 1; continue
        if w == ">" and d > 0: d -= 1; continue
        if w == ">>" and d > 1: d -= 2; continue
        if d == 0: out.append(w)
    return out


def _impl_key(hdr):
    """header words after `impl` + its generic parameter list, up to `where`."""
    w = list(hdr)
    while w and w[0] != "impl": w.pop(0)
    w = w[1:]
    if w and w[0] == "<":
        d = 0
        for i, x in enumerate(w):
            if x == "<": d += 1
            elif x == ">": d -= 1
            elif x == ">>": d -= 2
            if d <= 0:
                w = w[i + 1:]; break
    if "where" in w: w = w[:w.index("where")]
    return w


import threading
_tls = threading.local()


class _Cache:
    """per-thread cache of parsed files (units run in parallel threads; every generation starts from a cleared cache)"""
    def _d(self):
        if not hasattr(_tls, "d"): _tls.d = {}
        return _tls.d
    def clear(self): self._d().clear()
    def __contains__(self, k): return k in self._d()
    def __getitem__(self, k): return self._d()[k]
    def __setitem__(self, k, v): self._d()[k] = v


class SourceFile:
    _cache = _Cache()

    def __init__(self, rel):
        self.rel = rel
        self.path = os.path.join(REPO, rel)
        try:
            self.src = open(self.path, encoding="utf-8").read()
        except OSError as e:
            raise LostAnchor("cannot read %s: %s" % (rel, e))
        self.toks = lex(self.src)
        self.items = parse_items(self.toks, 0, len(self.toks))

    @classmethod
    def get(cls, rel):
        # no caching across runs: a check always reads the working tree
        if rel not in cls._cache:
            cls._cache[rel] = cls(rel)
        return cls._cache[rel]

    def line_of(self, tokidx):
        return self.src.count("\n", 0, self.toks[tokidx].pos) + 1


def _match_segment(items, seg, nxt=None, toks=None):
    seg = seg.strip()
    m = re.match(r"^(\w+)\s*(.*?)(?:\s*#(\d+))?$", seg)
    kind, rest, nth = m.group(1), m.group(2).strip(), m.group(3)
    want = [t.text for t in lex(rest) if t.kind not in TRIVIA]
    cands = []
    exact = []
    for it in items:
        if kind == "impl" and it.kind == "impl":
            key = _impl_key(it.header)
            if key == want: exact.append(it)
            if key == want or _strip_generics([k for k in key if not k.startswith("'")]) == want or _strip_generics(key) == want:
                cands.append(it)
        elif kind == "macro" and it.kind == "macro_rules" and [it.name] == want:
            cands.append(it)
        elif kind == "call" and it.kind == "macro_call" and [it.name] == want:
            cands.append(it)
        elif kind == it.kind and kind != "impl" and [it.name] == want:
            cands.append(it)
    if len(exact) == 1 and nth is None:
        return exact[0]
    if nth is not None:
        n = int(nth)
        if n >= len(cands): raise LostAnchor("selector segment %r: index %d out of %d" % (seg, n, len(cands)))
        return cands[n]
    if len(cands) > 1 and nxt is not None and toks is not None and not nxt.startswith(("stmt ", "deepfn ", "stmts_after ")):
        # several `impl T` blocks: the one that holds the item named by the next segment (must be unique)
        holding = []
        for c in cands:
            br = c.body_range()
            if br is None: continue
            try:
                _match_segment(parse_items(toks, br[0] + 1, br[1]), nxt); holding.append(c)
            except LostAnchor:
                pass
        if len(holding) == 1: return holding[0]
    if len(cands) != 1:
        raise LostAnchor("selector segment %r matches %d items" % (seg, len(cands)))
    return cands[0]


def _match_deep(sf, rng, seg):
    """`stmt <tokens>`: the statement (at any depth inside the current item) that starts with the token sequence and runs to the
    next `;` at its own depth.  `deepfn <name>`: a fn item at any depth (e.g. inside a macro_rules body)."""
    toks = sf.toks
    kind, rest = seg.split(" ", 1)
    m = re.match(r"^(.*?)(?:\s*#(\d+))?$", rest.strip())
    pat = [t.text for t in lex(m.group(1)) if t.kind not in TRIVIA]
    nth = int(m.group(2) or 0)
    if kind == "deepfn": pat = ["fn"] + pat
    sig = [i for i in range(rng[0], rng[1]) if toks[i].kind not in TRIVIA]
    hits = []
    for a in range(len(sig) - len(pat) + 1):
        if all(toks[sig[a + k]].text == pat[k] for k in range(len(pat))):
            hits.append(sig[a])
    if nth >= len(hits):
        raise LostAnchor("selector segment %r: %d hits" % (seg, len(hits)))
    if kind in ("stmt", "stmts_after") and len(hits) != 1 and m.group(2) is None:
        raise LostAnchor("selector segment %r matches %d statements" % (seg, len(hits)))
    start = hits[nth]
    if kind == "deepfn":
        # include preceding `pub`/`pub(crate)` is not needed; parse one item from `fn`
        its = parse_items(toks, start, rng[1], limit=1)
        if not its or its[0].kind != "fn": raise LostAnchor("deepfn %r: not a fn" % seg)
        return its[0]
    d = 0
    end = None
    block_stmt = toks[start].kind == "ident" and toks[start].text in ("if", "for", "while", "loop", "match", "unsafe")
    for j in range(start, rng[1]):
        t = toks[j]
        if t.kind == "punct":
            if t.text in OPEN: d += 1
            elif t.text in CLOSE:
                d -= 1
                if d < 0: break
                if d == 0 and t.text == "}" and block_stmt:
                    # a block-like statement ends at its closing brace unless an `else` follows
                    k = j + 1
                    while k < rng[1] and toks[k].kind in TRIVIA: k += 1
                    if k < rng[1] and toks[k].kind == "ident" and toks[k].text == "else": continue
                    end = j + 1; break
            elif t.text == ";" and d == 0:
                end = j + 1; break
    if end is None: raise LostAnchor("statement %r has no terminating `;`" % seg)
    if kind == "stmts_after":
        # everything that follows the matched statement up to the end of the block that holds it (statements a refactoring adds there come along)
        d = 0; stop = None
        for j in range(end, rng[1]):
            t = toks[j]
            if t.kind == "punct":
                if t.text in OPEN: d += 1
                elif t.text in CLOSE:
                    d -= 1
                    if d < 0: stop = j; break
        if stop is None: stop = rng[1]
        a = end
        while a < stop and toks[a].kind in TRIVIA: a += 1
        hdr = [toks[i].text for i in range(a, stop) if toks[i].kind not in TRIVIA][:8]
        return Item(toks, a, a, stop, "stmt", None, hdr)
    hdr = [toks[i].text for i in range(start, end) if toks[i].kind not in TRIVIA][:8]
    return Item(toks, start, start, end, "stmt", None, hdr)


def select(selector):
    """selector = 'src/x.rs :: impl Range :: fn merge'  -> (SourceFile, Item)"""
    parts = [p.strip() for p in selector.split("::")]
    # re-join `::` that belong to an impl path is not needed: selectors use ` :: ` with spaces
    parts = [p.strip() for p in re.split(r"\s+::\s+", selector.strip())]
    sf = SourceFile.get(parts[0])
    items = sf.items
    it = None
    rng = (0, len(sf.toks))
    segs = parts[1:]
    for si, seg in enumerate(segs):
        if seg.startswith("stmt ") or seg.startswith("deepfn ") or seg.startswith("stmts_after "):
            it = _match_deep(sf, rng, seg)
        else:
            it = _match_segment(items, seg, segs[si + 1] if si + 1 < len(segs) else None, sf.toks)
        br = it.body_range()
        if it.kind in ("macro_call", "macro_rules") and br is None:
            # body in (...) or [...]
            for i in range(it.core, it.end):
                if sf.toks[i].kind == "punct" and sf.toks[i].text in "([":
                    br = (i, match_close(sf.toks, i)); break
        if br is not None:
            rng = (br[0] + 1, br[1])
            try:
                items = parse_items(sf.toks, br[0] + 1, br[1])
            except LostAnchor:
                items = []
        else:
            items = []
    if it is None:
        raise LostAnchor("empty selector " + selector)
    return sf, it


def token_hash(texts):
    h = hashlib.sha256()
    for t in texts:
        h.update(t.encode("utf-8")); h.update(b"\0")
    return h.hexdigest()[:16]
