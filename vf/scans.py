"""Mechanical frame scans over /repo token streams (lexer level, comments and strings excluded).
A scan is complete for what it states ("no such token occurs in these files"); the semantic conclusion drawn from it
(e.g. "these emitters cannot modify a file") additionally assumes that file-system mutation is only reachable through the
names scanned for.  Scans are reported separately from proof obligations."""
import os, re, time
from .extract import SourceFile, LostAnchor
from .rustlex import TRIVIA

FS_NAMES = {"fs", "File", "OpenOptions", "rename", "remove_file", "remove_dir", "remove_dir_all", "create_dir", "create_dir_all",
            "hard_link", "symlink", "set_permissions", "Command", "tempfile", "copy"}


def _idents(rel, skip_test_mods=True):
    sf = SourceFile.get(rel)
    skip = set()
    if skip_test_mods:
        for it in sf.items:
            if it.kind == "mod":
                attrs = "".join(t.text for t in sf.toks[it.full_start:it.core]).replace(" ", "")
                if "cfg(test)" in attrs:
                    skip.update(range(it.full_start, it.end))
    out = []
    for i, t in enumerate(sf.toks):
        if i in skip or t.kind != "ident": continue
        out.append((t.text, sf.line_of(i)))
    return out


def emitters_no_fs():
    """C06: the stdout, diff, json, checkstyle and modified-lines emitters contain no file-system mutation."""
    files = ["src/emitter.rs", "src/emitter/stdout.rs", "src/emitter/diff.rs", "src/emitter/json.rs", "src/emitter/checkstyle.rs",
             "src/emitter/checkstyle/xml.rs", "src/emitter/modified_lines.rs"]
    failed, checked = [], []
    for f in files:
        hits = [(n, ln) for n, ln in _idents(f) if n in FS_NAMES]
        checked.append(f)
        for n, ln in hits:
            failed.append({"obligation": "frame scan emitters_no_fs: %s contains no file-system name" % f, "function": f, "kind": "frame scan hit",
                           "input": "%s:%d token `%s`" % (f, ln, n), "detail": "a non-writing emitter mentions `%s`" % n})
    # and the emitter directory holds no further file that could write
    listed = set(files) | {"src/emitter/files.rs", "src/emitter/files_with_backup.rs"}
    root = os.path.join(os.environ.get("VERIF_REPO", "/repo"), "src", "emitter")
    for dp, _, fns in os.walk(root):
        for fn in fns:
            rel = os.path.relpath(os.path.join(dp, fn), os.environ.get("VERIF_REPO", "/repo"))
            if fn.endswith(".rs") and rel not in listed:
                hits = [(n, ln) for n, ln in _idents(rel) if n in FS_NAMES]
                checked.append(rel)
                for n, ln in hits:
                    failed.append({"obligation": "frame scan emitters_no_fs: new emitter file %s contains no file-system name" % rel, "function": rel,
                                   "kind": "frame scan hit", "input": "%s:%d token `%s`" % (rel, ln, n), "detail": "unlisted emitter file mentions `%s`" % n})
    return checked, failed, "identifier tokens (outside #[cfg(test)] mods) of each file intersected with " + ",".join(sorted(FS_NAMES))


SCANS = {"emitters_no_fs": emitters_no_fs}


def run_scan(unit_id, name):
    t0 = time.time()
    SourceFile._cache.clear()
    try:
        checked, failed, rule = SCANS[name]()
    except LostAnchor as e:
        from .backends import Undecided
        raise Undecided(unit_id, "scan %s lost its anchor: %s" % (name, e))
    return {"unit": unit_id, "backend": "scan", "scan": name, "file": None, "checker_cmd": "vf/scans.py:%s" % name,
            "scanned": checked, "scan_sites": len(checked), "rule": rule, "failed": failed, "items": [], "wall_s": round(time.time() - t0, 2),
            "trusted": [], "drops": []}
