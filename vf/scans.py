"""Mechanical frame scans over /repo token streams (lexer level, comments and strings excluded).
A scan is complete for what it states ("no such token occurs in these files"); the semantic conclusion drawn from it
(e.g. "these emitters cannot modify a file") additionally assumes that file-system mutation is only reachable through the
names scanned for.  Scans are reported separately from proof obligations."""
import os, re, time
from .extract import SourceFile, LostAnchor
from .rustlex import TRIVIA
from .extract import match_close

FS_NAMES = {"fs", "File", "OpenOptions", "rename", "remove_file", "remove_dir", "remove_dir_all", "create_dir", "create_dir_all",
            "hard_link", "symlink", "set_permissions", "Command", "tempfile", "copy"}


def _idents(rel, skip_test_mods=True):
    sf = SourceFile.get(rel)
    skip = set()
    if skip_test_mods:
        for it in sf.items:
            if it.kind == "mod":
                attrs = "".join(t.text for t in sf.toks[it.full_start:it.core]).replace(" ", "")
                if "cfg(test)" in attrs:
                    skip.update(range(it.full_start, it.end))
    out = []
    for i, t in enumerate(sf.toks):
        if i in skip or t.kind != "ident": continue
        out.append((t.text, sf.line_of(i)))
    return out


def emitters_no_fs():
    """C06: the stdout, diff, json, checkstyle and modified-lines emitters contain no file-system mutation."""
    files = ["src/emitter.rs", "src/emitter/stdout.rs", "src/emitter/diff.rs", "src/emitter/json.rs", "src/emitter/checkstyle.rs",
             "src/emitter/checkstyle/xml.rs", "src/emitter/modified_lines.rs"]
    failed, checked = [], []
    for f in files:
        hits = [(n, ln) for n, ln in _idents(f) if n in FS_NAMES]
        checked.append(f)
        for n, ln in hits:
            failed.append({"obligation": "frame scan emitters_no_fs: %s contains no file-system name" % f, "function": f, "kind": "frame scan hit",
                           "input": "%s:%d token `%s`" % (f, ln, n), "detail": "a non-writing emitter mentions `%s`" % n})
    # and the emitter directory holds no further file that could write
    listed = set(files) | {"src/emitter/files.rs", "src/emitter/files_with_backup.rs"}
    root = os.path.join(os.environ.get("VERIF_REPO", "/repo"), "src", "emitter")
    for dp, _, fns in os.walk(root):
        for fn in fns:
            rel = os.path.relpath(os.path.join(dp, fn), os.environ.get("VERIF_REPO", "/repo"))
            if fn.endswith(".rs") and rel not in listed:
                hits = [(n, ln) for n, ln in _idents(rel) if n in FS_NAMES]
                checked.append(rel)
                for n, ln in hits:
                    failed.append({"obligation": "frame scan emitters_no_fs: new emitter file %s contains no file-system name" % rel, "function": rel,
                                   "kind": "frame scan hit", "input": "%s:%d token `%s`" % (rel, ln, n), "detail": "unlisted emitter file mentions `%s`" % n})
    return checked, failed, "identifier tokens (outside #[cfg(test)] mods) of each file intersected with " + ",".join(sorted(FS_NAMES))


# ---------------------------------------------------------------------------------------------------------------- file_lines guards
EFFECTS = {"push_rewrite", "push_str", "push_skipped_with_span", "format_missing", "format_missing_with_indent", "format_missing_no_indent",
           "rewrite", "rewrite_result", "visit_attrs", "write_snippet", "contains_skip", "visit_block", "push_rewrite_inner"}
GUARD_SITES = [
    # (file, selector below the file, guard macro, argument tokens, what the function does)
    ("src/visitor.rs", "impl FmtVisitor :: fn visit_item", "skip_out_of_file_lines_range_visitor", "self , item . span", "every item"),
    ("src/visitor.rs", "impl FmtVisitor :: fn visit_assoc_item", "skip_out_of_file_lines_range_visitor", "self , ai . span", "every trait / impl item"),
    ("src/visitor.rs", "impl FmtVisitor :: fn visit_mac", "skip_out_of_file_lines_range_visitor", "self , mac . span ( )", "every macro call in item or statement position"),
    ("src/expr.rs", "fn format_expr", "skip_out_of_file_lines_range_err", "context , expr . span", "every expression"),
    ("src/stmt.rs", "fn format_stmt", "skip_out_of_file_lines_range_err", "context , stmt . span ( )", "every statement"),
    ("src/items.rs", "impl Rewrite for ast::Local :: fn rewrite_result", "skip_out_of_file_lines_range_err", "context , self . span", "every let statement"),
]
GUARD_MACROS = {
    "out_of_file_lines_range": "( $ self : ident , $ span : expr ) => { ! $ self . config . file_lines ( ) . is_all ( ) && ! $ self . config . file_lines ( ) . intersects ( & $ self . psess . lookup_line_range ( $ span ) ) } ;",
    "skip_out_of_file_lines_range_err": "( $ self : ident , $ span : expr ) => { if out_of_file_lines_range ! ( $ self , $ span ) { return Err ( RewriteError :: SkipFormatting ) ; } } ;",
    "skip_out_of_file_lines_range_visitor": "( $ self : ident , $ span : expr ) => { if out_of_file_lines_range ! ( $ self , $ span ) { $ self . push_rewrite ( $ span , None ) ; return ; } } ;",
}


def file_lines_guards():
    """C17 ("every top-level item, and every statement of a selected function, whose lines do not intersect a selected range is emitted byte
    for byte"): each rewriting entry point consults the file_lines guard BEFORE it rewrites, visits attributes or pushes anything, with the span
    of the node it is about to handle; the three guard macros have their canonical bodies (copy the span verbatim / return SkipFormatting)."""
    from .extract import select
    failed, checked = [], []
    ob = "frame scan file_lines_guards: %s consults the file_lines guard, with the span of the node it handles, before it rewrites or emits anything"
    for f, sel, macro, args, what in GUARD_SITES:
        sf, it = select(f + " :: " + sel)           # LostAnchor -> UNDECIDED (the function is gone or renamed)
        br = it.body_range()
        if br is None: raise LostAnchor("fn without body: " + sel)
        body = [(i, t) for i, t in enumerate(sf.toks) if br[0] < i < br[1] and t.kind not in TRIVIA]
        texts = [t.text for _, t in body]
        want = [macro, "!", "("] + args.split() + [")", ";"]
        pos = next((k for k in range(len(texts) - len(want) + 1) if texts[k:k + len(want)] == want), None)
        site = "%s :: %s" % (f, sel)
        checked.append(site)
        name = sel.split("fn ")[-1]
        if pos is None:
            failed.append({"obligation": ob % name, "function": site, "kind": "frame scan hit", "input": "%s (line %d)" % (site, sf.line_of(it.core)),
                           "detail": "the function handles %s but holds no `%s!(%s)`: nodes outside the --file-lines selection are no longer copied verbatim" % (what, macro, args.replace(" ", ""))})
            continue
        # nothing that rewrites or emits may come first (debug!/trace! calls and plain lets are fine)
        early = [t for t in texts[:pos] if t in EFFECTS]
        if early:
            failed.append({"obligation": ob % name, "function": site, "kind": "frame scan hit", "input": "%s (line %d)" % (site, sf.line_of(body[pos][0])),
                           "detail": "`%s` is used before the guard" % early[0]})
    # the macros themselves
    sfu = SourceFile.get("src/utils.rs")
    for name, canon in GUARD_MACROS.items():
        it = next((x for x in sfu.items if x.kind == "macro_rules" and x.name == name), None)
        if it is None: raise LostAnchor("macro %s not found in src/utils.rs" % name)
        br = it.body_range()
        texts = [t.text for i, t in enumerate(sfu.toks) if br[0] < i < br[1] and t.kind not in TRIVIA]
        checked.append("src/utils.rs :: macro " + name)
        if " ".join(texts) != canon:
            # a form the scan cannot classify is not an alarm
            raise LostAnchor("macro %s has a body the scan cannot classify: %s" % (name, " ".join(texts)[:200]))
    rule = ("each of the %d rewriting entry points holds its guard macro call with the span of the node it handles, and none of %s occurs in the body before it; "
            "the three guard macros have their canonical bodies (else UNDECIDED)" % (len(GUARD_SITES), ",".join(sorted(EFFECTS))))
    return checked, failed, rule


# ---------------------------------------------------------------------------------------------------------------- width subtractions
WIDTH_NAME = re.compile(r"(width|budget)$")
REVIEWED_SUB_ASSIGN = {
    # (file, left operand): why the `-=` cannot underflow
    ("src/comment.rs", "one_line_width"): "one_line_width was computed as a sum that includes first_sep.len()",
    ("src/lists.rs", "item_last_line_width"): "guarded by `item_last_line.starts_with(indent_str)`: the width of a prefix is subtracted",
}


def width_subtractions():
    """C16 (width arithmetic): formatting code never subtracts from a width or budget with a raw `-`: every such subtraction goes through
    saturating_sub / checked_sub or the checked Shape helpers (whose arithmetic U06 proves).  Lexical rule over all of src/ outside
    test/config/bin: no token sequence `<name ending in width|budget> -`, `<such name> ( ) -` or `. <such name> -`; `-=` only at reviewed sites."""
    repo = os.environ.get("VERIF_REPO", "/repo")
    files = []
    for dp, _, fns in os.walk(os.path.join(repo, "src")):
        for fn in fns:
            rel = os.path.relpath(os.path.join(dp, fn), repo)
            if fn.endswith(".rs") and not rel.startswith(FORMAT_FILES_EXCLUDE): files.append(rel)
    failed, checked = [], []
    ob = "frame scan width_subtractions: no raw subtraction from a width or budget in formatting code (saturating_sub / checked_sub / Shape helpers only)"
    for rel in sorted(files):
        sf = SourceFile.get(rel)
        sig = _sig(sf)
        checked.append(rel)
        for k, (i, t) in enumerate(sig):
            if t.kind != "punct" or t.text not in ("-", "-="): continue
            # left operand: ident  |  ident ( )
            j = k - 1
            if j >= 1 and sig[j][1].text == ")" and sig[j - 1][1].text == "(": j -= 2
            if j < 0: continue
            lt = sig[j][1]
            if lt.kind != "ident" or not WIDTH_NAME.search(lt.text): continue
            if t.text == "-=" and (rel, lt.text) in REVIEWED_SUB_ASSIGN: continue
            failed.append({"obligation": ob, "function": rel, "kind": "frame scan hit", "input": "%s:%d `%s %s`" % (rel, sf.line_of(i), lt.text, t.text),
                           "detail": "a width is subtracted from without a check: in the debug/test profile an underflow is a panic (exit 101), in release it wraps to a huge width"})
    rule = "no `<name ending in width or budget> -` / `-=` outside %d reviewed `-=` sites, in %d files of formatting code" % (len(REVIEWED_SUB_ASSIGN), len(files))
    return checked, failed, rule


SCANS = {"file_lines_guards": file_lines_guards, "width_subtractions": width_subtractions, "emitters_no_fs": emitters_no_fs}


def run_scan(unit_id, name):
    t0 = time.time()
    SourceFile._cache.clear()
    try:
        checked, failed, rule = SCANS[name]()
    except LostAnchor as e:
        from .backends import Undecided
        raise Undecided(unit_id, "scan %s lost its anchor: %s" % (name, e))
    return {"unit": unit_id, "backend": "scan", "scan": name, "file": None, "checker_cmd": "vf/scans.py:%s" % name,
            "scanned": checked, "scan_sites": len(checked), "rule": rule, "failed": failed, "items": [], "wall_s": round(time.time() - t0, 2),
            "trusted": [], "drops": []}


# ---------------------------------------------------------------------------------------------------------------- style gates
OLD = [2015, 2018, 2021]
ALL = [2015, 2018, 2021, 2024, 2027]
CMP = {">=": lambda a, b: a >= b, ">": lambda a, b: a > b, "<=": lambda a, b: a <= b, "<": lambda a, b: a < b, "==": lambda a, b: a == b, "!=": lambda a, b: a != b}
FLIP = {">=": "<=", ">": "<", "<=": ">=", "<": ">", "==": "==", "!=": "!="}
FORMAT_FILES_EXCLUDE = ("src/test/", "src/config/", "src/bin/", "src/cargo-fmt/", "src/format-diff/", "src/git-rustfmt/")


def _sig(sf):
    skip = set()
    for it in sf.items:
        if it.kind == "mod":
            attrs = "".join(t.text for t in sf.toks[it.full_start:it.core]).replace(" ", "")
            if "cfg(test)" in attrs: skip.update(range(it.full_start, it.end))
    return [(i, t) for i, t in enumerate(sf.toks) if t.kind not in TRIVIA and i not in skip]


def style_gates():
    """C09 clause 1 (non-interference): every place where formatting code looks at the style edition is either a comparison
    `<style edition> OP StyleEdition::EditionN` whose truth value is the same for 2015, 2018 and 2021, or a pass-through of the value."""
    repo = os.environ.get("VERIF_REPO", "/repo")
    files = []
    for dp, _, fns in os.walk(os.path.join(repo, "src")):
        for fn in fns:
            rel = os.path.relpath(os.path.join(dp, fn), repo)
            if fn.endswith(".rs") and not rel.startswith(FORMAT_FILES_EXCLUDE): files.append(rel)
    failed, undecided, sites = [], [], []
    for rel in sorted(files):
        sf = SourceFile.get(rel)
        sig = _sig(sf)
        texts = [t.text for _, t in sig]
        for k, (i, t) in enumerate(sig):
            if t.kind == "ident" and t.text == "StyleEdition" and k + 2 < len(sig) and texts[k + 1] == "::" and texts[k + 2].startswith("Edition"):
                year = int(texts[k + 2][len("Edition"):])
                line = sf.line_of(i)
                prev = texts[k - 1] if k > 0 else ""
                nxt = texts[k + 3] if k + 3 < len(texts) else ""
                op = None
                if prev in CMP: op = prev                       # value OP StyleEdition::EditionN
                elif nxt in CMP: op = FLIP[nxt]                 # StyleEdition::EditionN OP value
                site = "%s:%d `%s StyleEdition::Edition%d`" % (rel, line, op or "?", year)
                if op is None:
                    # pattern position: an or-pattern `StyleEdition::A | StyleEdition::B ... =>` (or `if` guard after it).  The arm selects a set of
                    # editions: it must contain none or all of 2015/2018/2021.
                    j = k
                    while j - 4 >= 0 and texts[j - 1] == "|" and texts[j - 4] == "StyleEdition" and texts[j - 3] == "::": j -= 4
                    if j != k: continue                      # not the first alternative of its group: the group is judged at its first one
                    years, q = [], k
                    while q + 2 < len(texts) and texts[q] == "StyleEdition" and texts[q + 1] == "::" and texts[q + 2].startswith("Edition"):
                        years.append(int(texts[q + 2][len("Edition"):])); q += 3
                        if q < len(texts) and texts[q] == "|": q += 1
                        else: break
                    after = texts[q] if q < len(texts) else ""
                    before = texts[k - 1] if k > 0 else ""
                    if after in ("=>", "if") and before in ("{", ",", "|", "}", "(") or (after in ("=>", "if") and before == "=>"):
                        old_in = sorted(y for y in years if y in OLD)
                        psite = "%s:%d match arm `%s`" % (rel, line, " | ".join("Edition%d" % y for y in years))
                        sites.append(psite)
                        if old_in and old_in != OLD:
                            failed.append({"obligation": "frame scan style_gates: a match arm on the style edition selects none or all of 2015/2018/2021", "function": rel, "kind": "frame scan hit",
                                           "input": psite, "detail": "the arm selects %s of the three old style editions: they would format differently" % old_in})
                        continue
                    undecided.append(site + " (boundary constant used outside a comparison or match arm: %s _ %s)" % (prev, nxt))
                    continue
                truth = [CMP[op](e, year) for e in OLD]
                sites.append(site)
                if len(set(truth)) != 1:
                    failed.append({"obligation": "frame scan style_gates: a style-edition comparison is constant on 2015/2018/2021", "function": rel, "kind": "frame scan hit",
                                   "input": site, "detail": "truth values for 2015, 2018, 2021: %s -- the three released old style editions would format differently" % truth})
            # other ways of looking at the value: `match <..>.style_edition() {`, `as` casts, Debug/Display formatting
            if t.kind == "ident" and t.text == "style_edition":
                nxt = texts[k + 1:k + 4]
                prev = texts[k - 1] if k > 0 else ""
                line = sf.line_of(i)
                if nxt[:1] == ["as"] or (nxt[:3] == ["(", ")", "as"]):
                    undecided.append("%s:%d style edition cast with `as`" % (rel, line))
                if prev == "match" or (k >= 4 and "match" in texts[max(0, k - 6):k] and nxt[:3] == ["(", ")", "{"]):
                    # match on the value: every arm must be a guard comparison (handled above) or a catch-all binding
                    j = k + 3 if nxt[:3] == ["(", ")", "{"] else None
                    if j is not None:
                        close = match_close(sf.toks, sig[j - 1 + 0][0]) if sf.toks[sig[j - 1][0]].text == "{" else None
                    arms = texts[k:k + 40]
                    if any(a.startswith("Edition20") for a in arms[:0]): pass
    # default table: the macro's multi-arm match must group exactly the three old editions
    sf = SourceFile.get("src/config/style_edition.rs")
    txt = "".join(t.text for _, t in _sig(sf))
    grp = re.findall(r"((?:\$crate::config::StyleEdition::Edition\d+\|?)+)=>", txt)
    groups = [sorted(int(y) for y in re.findall(r"Edition(\d+)", g)) for g in grp]
    sites.append("src/config/style_edition.rs style_edition_default! arms %s" % groups)
    for g in groups:
        inter = [y for y in g if y in OLD]
        if inter and inter != OLD:
            failed.append({"obligation": "frame scan style_gates: the per-edition default table groups 2015, 2018 and 2021 in one arm", "function": "src/config/style_edition.rs",
                           "kind": "frame scan hit", "input": "style_edition_default! arm %s" % g, "detail": "old editions split across arms: %s" % groups})
    if not groups:
        undecided.append("src/config/style_edition.rs: no match arms found in style_edition_default!")
    if undecided:
        from .backends import Undecided
        raise Undecided("U20", "style gate scan met a form it cannot classify (not an alarm): " + "; ".join(undecided[:5]))
    return sites, failed, "every `StyleEdition::EditionN` token in formatting code (src/**/*.rs minus config/, bin/, test/, the auxiliary binaries and #[cfg(test)] mods) must sit in a comparison whose truth value is constant over {2015,2018,2021}; the default-table macro must group the three"


SCANS["style_gates"] = style_gates
