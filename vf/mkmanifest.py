#!/usr/bin/env python3
"""Regenerate /verif/MANIFEST.json from vf/properties.py (+ NOT_APPLICABLE below)."""
import json, os, sys
sys.path.insert(0, os.path.dirname(os.path.dirname(os.path.abspath(__file__))))
from vf.properties import PROPS, MANIFEST_TEXT, NOT_APPLICABLE

m = {
    "version": 1,
    "setup_cmd": "python3 vf/main.py setup",
    "hooks": {"guard": "rustfmt_verif", "enable": "none needed: private functions are reached by mechanical extraction of their source text on every run, not by exported hooks",
              "baseline_off_cmd": "cd /repo && cargo test --workspace --no-fail-fast --offline", "source_commits": [], "add_only": True},
    "engines": [{"name": "vf", "path": "vf/main.py", "serves_properties": sorted(PROPS.keys()),
                 "kind_free_text": "mechanical extraction of real rustfmt items + contract splicing; back ends: Verus (unbounded deductive proof), Kani (function harnesses over full-domain symbolic scalars: complete for loop-free code), native bounded-exhaustive contract checking on the real text (labelled bounded, never counted as proved), token-level frame scans"}],
    "checks": [],
    "notes": "Every check re-extracts the functions from /repo's working tree. Exit 0 = all obligations discharged / all enumerated cases pass; exit 1 + VIOLATION line = a named obligation failed; exit 2 + UNDECIDED line = lost anchor, unsupported construct, solver limit (never an alarm). See DESIGN.md.",
    "not_applicable": NOT_APPLICABLE,
}
for pid in sorted(PROPS):
    p = PROPS[pid]; t = MANIFEST_TEXT[pid]
    m["checks"].append({
        "property_id": pid,
        "quick_cmd": "python3 vf/main.py check %s --tier quick" % pid,
        "thorough_cmd": "python3 vf/main.py check %s --tier thorough" % pid,
        "evidence_file": "/verif/evidence/%s.json" % pid,
        "replay_cmd_template": "python3 vf/main.py replay {path}",
        "engine": "vf",
        "level_claimed": {"category": p["level"], "text": t["text"], "design_ref": "DESIGN.md §4 " + pid},
        "level_note": t["note"],
        "technique": t["technique"],
    })
json.dump(m, open(os.path.join(os.path.dirname(os.path.dirname(os.path.abspath(__file__))), "MANIFEST.json"), "w"), indent=1)
print("MANIFEST.json: %d checks, %d not_applicable" % (len(m["checks"]), len(NOT_APPLICABLE)))
