// rustfmt-edition: 2021
// Extra corpus (written for the checks, not taken from rustfmt): fn signatures with qualifiers async const unsafe extern, parameters, return types, empty and long bodies.

fn   a (  ) {   }
// fsg001 shortest possible function sits above
pub fn b(x:i32)->i32{x}
pub(crate)   fn c (x : i32 , y:i32,)   ->   i32 { x+y }
/* fsg002 block comment between two items */
pub(super) fn d(
    x: i32
) {}
pub(in crate::some::path) fn e(_:u8,_:u8){}

async fn f1(){}
const fn f2()->usize{0}
unsafe fn f3(){}
extern "Rust" fn f4(){}
extern "C" fn f5(){}
extern   "system"   fn f6 ( a : u32 ) -> u32 { a }
// fsg003 now the combinations of qualifiers
async unsafe fn f7(){}
const unsafe fn f8(){}
const unsafe extern "C" fn f9(){}
pub async unsafe extern "C" fn f10(){}
pub(crate) const unsafe extern "C" fn a_function_with_a_very_long_name_that_goes_on_and_on_and_on(first_argument_name: FirstArgumentType, second_argument_name: SecondArgumentType) -> ReturnTypeWithLongName { body() }
unsafe extern "C" fn variadic(fmt:*const u8, ...)->i32{0}
unsafe extern "C" fn variadic_named(fmt:*const u8, mut args: ...){}

fn with_comments(
    a: u8, // fsg004 trailing comment after the first parameter
    /* fsg005 block comment before the second parameter */ b: u16,
    // fsg006 line comment on its own line before the third
    c: u32,
) -> u64 { 0 }

fn patterns_in_params((a,b):(i32,i32), [x,y,..]:[u8;4], Point{x:px,y:py}:Point, &z:&i32, mut w:String, ref r:i32, _:(), Wrapper(inner):Wrapper<u8>){}
fn attr_params(#[allow(unused)] a:i32, #[cfg(feature="x")]#[allow(unused)] b:i32,){}
fn r#fn(r#match:r#type)->r#struct{r#loop}
fn überfunktion(größe:usize,名前:&str)->Größe{größe}
// fsg007 return types of unusual shapes follow
fn never()->!{loop{}}
fn unit_ret()->(){}
fn tuple_ret()->(i32,){(1,)}
fn fnptr_ret()->fn(i32)->fn(i32)->i32{x}
fn impl_ret()->impl Iterator<Item=impl Fn(u8)->u8+Send+'static>+Clone{y}
fn dyn_ret<'a>()->Box<dyn for<'b> Fn(&'b str)->&'b str+Send+Sync+'a>{z}
fn long_ret()->Result<HashMap<String,Vec<Option<Box<dyn Iterator<Item=(usize,String)>+Send>>>>,Box<dyn std::error::Error+Send+Sync+'static>>{todo!()}
fn array_ret() -> [ [ u8 ; 4 ] ; { 2 + 2 } ] { [[0;4];4] }

/* fsg008 methods with the various self forms */
impl S {
    fn m1(self){}
    fn m2(&self){}
    fn m3(&mut self){}
    fn m4(mut self){}
    fn m5<'a>(&'a self){}
    fn m6<'a>(&'a mut self, other:&'a Self)->&'a Self{self}
    fn m7(self:Box<Self>){}
    fn m8(self : Pin < & mut Self >, cx:&mut Context<'_>)->Poll<()>{Poll::Pending}
    fn m9(mut self:Rc<Self>,){}
    // fsg009 a method whose signature exactly needs breaking
    pub(crate) async unsafe fn a_method_with_a_rather_long_name(&mut self, first: usize, second: usize) -> usize { first }
    fn m10(self: &Arc<Self>, /* fsg010 comment between self and the next parameter */ n: u8){}
}

fn body_breaks() -> i32
{
    1
}
fn one_long_param(the_only_parameter_of_this_function_has_quite_a_long_name_indeed: TheTypeOfTheParameterIsLongToo<WithGenerics>) {}
fn one_long_param_ret(the_only_parameter_of_this_function_has_quite_a_long_name: TheTypeOfTheParameterIsLongToo) -> Ret {}
fn closure_param(f:impl FnOnce(&mut Vec<u8>,usize)->Result<(),()>,g:&dyn Fn(),h:fn(),i:unsafe extern "C" fn(*mut c_void,...)->c_int){}
// fsg011 functions nested inside function bodies
fn outer(){ fn inner(){ fn innermost ( ) { } } const fn k()->u8{1} async fn l(){} /* fsg012 after nested fns */ }
fn default_like(x: i32 /* fsg013 comment after the last parameter */) {}
fn   empty_with_comment() {
    // fsg014 only a comment in the body
}
pub fn exactly_fits_or_not(aaaaaaaa: u32, bbbbbbbbbbbbbbbbbbbbbb: u32, cccccccccccccc: u32) -> u32 {}
pub fn exactly_fits_or_not2(aaaaaaa: u32, bbbbbbbbbbbbbbbbbbbbbb: u32, cccccccccccccc: u32) -> u3 {}
pub fn exactly_fits_or_not3(aaaaaaa: u32, bbbbbbbbbbbbbbbbbbbbbb: u32, cccccccccccccc: u32) -> u {}
#[inline(always)]#[must_use = "fsg attribute string"] pub const fn attributed()->u8{7}
/// fsg015 doc comment on a function
#[doc = "and a doc attribute"]
fn documented(){}
