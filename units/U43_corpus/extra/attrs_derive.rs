// rustfmt-edition: 2021
// Extra corpus (written for the checks, not taken from rustfmt): single derive attribute lists (empty, short, long, with paths, odd delimiters), derives separated by other attributes, and helper attributes of derives; no two derives are adjacent.
#[derive()]struct A0;
#[derive( )]struct A00;
#[derive(,)]struct A000;
#[derive(Debug)]struct A1;
#[derive(Debug,)]struct A2;
#[derive(   Debug   ,Clone,
Copy    )]struct A3;
// adr001 a list that fills exactly one line and a list that does not
#[derive(Debug,Clone,Copy,PartialEq,Eq,PartialOrd,Ord,Hash,Default)]struct A4(u8);
#[derive(Debug,Clone,Copy,PartialEq,Eq,PartialOrd,Ord,Hash,Default,Serialize,Deserialize,FromPrimitive,ToPrimitive)]struct A5{a:u8}
#[derive(::core::fmt::Debug,::core::clone::Clone,core::marker::Copy,std::cmp::PartialEq,std::cmp::Eq,std::hash::Hash)]pub struct A6;
#[derive(serde::Serialize,serde::Deserialize,a_crate_with_a_long_name::a_module::ADeriveMacroWithAVeryLongNameThatGoesOnAndOnAndOnAndOn)]enum A7{}
#[derive(
    Debug,

    Clone,
)]struct A8;
#[derive(Debug,Clone,Copy,PartialEq,Eq,PartialOrd,Ord,Hash,Default,Serialize,Deserializ)]struct ExactlyOneHundredColumns;
#[derive(Debug,Clone,Copy,PartialEq,Eq,PartialOrd,Ord,Hash,Default,Serialize,Deserialize)]struct OneHundredAndOneColumns;
// adr002 derives separated by other attributes
#[derive(Debug)]#[repr(C)]#[derive(Clone)]struct C1;
#[derive(Debug)]#[allow(unused)]#[derive(Clone)]#[must_use]#[derive(PartialEq)]struct C2;
#[allow(unused)]#[derive(Debug)]#[cfg_attr(feature="serde",derive(Serialize))]#[derive(Clone)]struct C3;
#[derive(Debug)]#[doc="a doc attribute in the middle"]#[derive(Clone)]struct C4;
/* adr003 derives around doc comments */
#[derive(Debug)]
/// A doc comment after the first derive.
#[derive(Clone)]
/// Another doc comment before the item.
struct C5;
/// A doc comment before the derive.
#[derive(Debug)]
struct C6;
#[cfg_attr(all(),derive(Debug),derive(Clone),derive(Copy,PartialEq,Eq,PartialOrd,Ord,Hash,Default,Serialize,Deserialize))]struct C7;

#[derive(Debug,Clone)]enum D1{A,B}
#[derive(Clone,Copy)]union D2{a:u8}
#[derive(Debug,Default)]pub(crate) struct D3<'a,T:'a+?Sized,const N:usize>where T:Clone{a:&'a T,b:[u8;N]}
#[derive(r#Debug,r#try)]struct D4;
#[derive(Débogue,克隆)]struct D5;
// adr004 helper attributes of derive macros on the item, its fields and its variants
#[derive(Serialize,Deserialize,Builder,StructOpt)]#[serde(rename_all="snake_case",tag="type",content="value")]#[builder(setter(into,strip_option),default,build_fn(validate="Self::validate",error="BuildError"))]#[structopt(name="prog",about="a program")]
struct E1{
    #[serde(rename="x")]#[builder(default="1")]x:u8,
    #[serde(skip)]#[structopt(short,long,parse(from_os_str),default_value="/a/rather/long/default/value/for/this/option/which/is/a/path")]y:PathBuf, // adr005 trailing comment after a field with helpers
    #[serde(with="a_module::with::a::long::path",default="a_module::with::a::long::path::default_value_function")]#[builder(setter(skip))]pub z:Vec<Option<u8>>,
}
#[derive(Debug,Error,Clone)]enum E2{
    #[error("an error happened: {0}")]A(#[from]#[source]io::Error),
    /* adr006 block comment between variants with helpers */
    #[error("a much longer message that explains at great length what went wrong: {name} {value:?} {other}",other=self.other())]B{#[source]source:Box<dyn Error>,name:String,value:u8},
    #[error(transparent)]#[allow(unused)]C(#[from]Other),
    #[default]#[serde(other)]D,
}
#[derive(Clone,Copy,Debug,Default,Eq,Hash,Ord,PartialEq,PartialOrd,Clone,Copy,Debug,Default,Eq,Hash,Ord,PartialEq,PartialOrd,Clone,Copy,Debug,Default,Eq,Hash,Ord,PartialEq,PartialOrd)]struct F1;
// adr007 derive in odd syntactic shapes
#[derive]struct G1;
#[derive="Debug"]struct G2;
#[derive(Debug=1,Clone(x))]struct G3;
#[derive{Debug,Clone}]struct G4;
#[derive[Debug,Clone]]struct G5;
#[core::prelude::v1::derive(Debug,Clone)]struct G6;
#[derive(Debug,Clone,)]#[derive_where(Clone;T)]#[derivative(Debug(bound=""),Clone(bound="T: Clone"))]struct G7<T>(T);
mod m{
    #[derive(Debug)]pub struct H1;
    /* adr008 nested item with a derive */
    fn f(){
        #[derive(Debug,Clone,Copy,PartialEq,Eq,PartialOrd,Ord,Hash,Default,Serialize,Deserialize,FromPrimitive,ToPrimitive)]struct Local;
        #[derive(Debug,Clone)]enum LocalEnum{A} // adr009 trailing comment after a local enum
    }
    impl X{
        fn g(){#[derive(Debug)]#[allow(unused)]#[derive(Clone)]struct InMethod{#[allow(unused)]a:u8}}
    }
}
