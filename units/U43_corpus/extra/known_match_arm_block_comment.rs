// rustfmt-edition: 2021
// Extra corpus (written for the checks, not taken from rustfmt): a block comment between the comma which ends a match arm and the next arm on the same line; met by accident while writing the literal files, the bodies are literals of each kind.

// mab001 an integer body, comma, block comment, next arm, all on one line
fn integer_body(x:u8)->u8{ match x { 1 => 1, /* mab002 after the comma */ _ => 0 } }

fn space_before_the_comma(x:u8)->u8{
    match x{ 1=>1 , /* mab003 a space on both sides of the comma */ _=>0 }
}

fn string_body(x:u8)->&'static str{
    // mab004 a string body
    match x{ 1=>"one", /* mab005 after a string */ _=>"other" }
}

fn char_and_float_bodies(x:u8)->f64{
    match x{ 0=>'a' as u8 as f64, /* mab006 after a cast */ 1=>1., /* mab007 after a bare dot */ 2=>2.5e3, /* mab008 after an exponent */ _=>0.0 }
}

fn call_body(x:u8)->u8{
    match x{ 1=>foo() , /* mab009 after a call */ _=>0 }
}

fn for_contrast(x:u8)->u8{
    // mab010 these come out well: the comment on its own line, a line comment, no comma at all
    match x{ 1=>1,
        /* mab011 on its own line */ _=>0 };
    match x{ 1=>1, // mab012 a line comment
        _=>0 };
    match x{ 1=>{1} /* mab013 after a block body without a comma */ _=>0 }
}
