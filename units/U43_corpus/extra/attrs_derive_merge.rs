// rustfmt-edition: 2021
// rustfmt-merge_derives: true
// Extra corpus (written for the checks, not taken from rustfmt): adjacent derive attributes, which the formatter merges into one list (so the tokens `)] #[derive(` disappear by design); on items of every kind and nesting.
#[derive(Debug)]#[derive(Clone)]struct B1;
#[derive(Debug)]
#[derive(Clone,Copy)]
#[derive(PartialEq,Eq)]
#[derive(PartialOrd,Ord,Hash,Default,Serialize,Deserialize,FromPrimitive,ToPrimitive,Display,FromStr)]
struct B2;
// dmg001 an empty derive between two others
#[derive(Debug)]#[derive()]#[derive(Clone)]struct B3;
#[derive()]#[derive()]struct B4;
#[derive(Debug,)]#[derive(Clone,)]struct B5;
#[derive(Debug)]
     #[derive(Clone)]
struct B6;
/* dmg002 two groups of adjacent derives separated by another attribute */
#[derive(Debug)]#[derive(Clone)]#[repr(C)]#[derive(Copy)]#[derive(PartialEq)]struct C1;
#[derive(Debug)]#[allow(unused)]#[derive(Clone)]#[derive(Copy)]#[must_use]#[derive(PartialEq)]struct C2;
#[allow(unused)]#[derive(Debug)]#[derive(Clone)]#[cfg_attr(feature="serde",derive(Serialize),derive(Deserialize))]struct C3;
/// A doc comment before the derives.
#[derive(Debug)]#[derive(Clone)]
struct C4;
#[derive(Debug)]#[derive(Clone)]
/// A doc comment after the derives.
struct C5;
#[derive(Debug)]
/// A doc comment between two derives keeps them apart.
#[derive(Clone)]
struct C6;
// dmg003 merging with paths and with a result that does not fit on one line
#[derive(::core::fmt::Debug,::core::clone::Clone)]#[derive(core::marker::Copy,std::cmp::PartialEq)]#[derive(std::cmp::Eq,std::hash::Hash)]pub struct D1;
#[derive(A)]#[derive(B)]#[derive(C)]#[derive(D)]#[derive(E)]#[derive(F)]#[derive(G)]#[derive(H)]#[derive(I)]#[derive(J)]#[derive(K)]#[derive(L)]#[derive(M)]#[derive(N)]#[derive(O)]#[derive(P)]#[derive(Q)]#[derive(R)]#[derive(S)]#[derive(T)]#[derive(U)]#[derive(V)]#[derive(W)]struct D2;
#[derive(Debug)]#[derive(Debug)]#[derive(Debug)]struct D3;
#[derive(r#Debug)]#[derive(Débogue,克隆)]struct D4;
#[derive(Debug)]#[core::prelude::v1::derive(Clone)]#[derive(Copy)]struct D5;
#[derive(Debug)]#[derive{Clone}]#[derive[Copy]]#[derive(Eq)]struct D6;
#[derive(Debug)]#[derive]#[derive="x"]#[derive(Eq)]struct D7;
/* dmg004 on the other kinds of item */
#[derive(Debug)]#[derive(Clone)]enum E1{A,B}
#[derive(Clone)]#[derive(Copy)]union E2{a:u8}
#[derive(Debug)]#[derive(Default)]pub(crate) struct E3<'a,T:'a+?Sized,const N:usize>where T:Clone{a:&'a T,b:[u8;N]}
#[derive(Debug)]#[derive(Clone)]struct E4(#[allow(unused)]u8);
#[derive(Debug)]#[derive(Clone)]pub struct E5{
    #[serde(skip)]a:u8, // dmg005 trailing comment after a field
    /* dmg006 block comment between fields */
    #[serde(default)]b:u8,
}
#[derive(Debug)]#[derive(Error)]#[derive(Clone)]enum E6{
    #[error("an error happened: {0}")]A(#[from]io::Error),
    // dmg007 comment between variants
    #[error(transparent)]B(#[from]Other),
}
mod m{
    #[derive(Debug)]#[derive(Clone)]pub struct H1;
    /* dmg008 nested items with derives */
    fn f(){
        #[derive(Debug,Clone,Copy,PartialEq,Eq,PartialOrd)]#[derive(Ord,Hash,Default,Serialize,Deserialize,FromPrimitive,ToPrimitive)]struct Local;
        #[derive(Debug)]#[derive(Clone)]enum LocalEnum{A} // dmg009 trailing comment after a local enum
        #[derive(Debug)]#[derive(Clone)]union LocalUnion{a:u8}
    }
    impl X{
        fn g(){#[derive(Debug)]#[derive(Clone)]#[allow(unused)]#[derive(Copy)]#[derive(Eq)]struct InMethod{#[allow(unused)]a:u8}}
    }
    mod n{mod o{#[derive(Debug)]#[derive(Clone)]#[derive(Copy)]struct Deep;}}
}
// dmg010 the last comment
#[derive(Clone,Copy,Debug,Default,Eq,Hash,Ord,PartialEq,PartialOrd)]#[derive(Clone,Copy,Debug,Default,Eq,Hash,Ord,PartialEq,PartialOrd)]#[derive(Clone,Copy,Debug,Default,Eq,Hash,Ord,PartialEq,PartialOrd)]struct F1;
