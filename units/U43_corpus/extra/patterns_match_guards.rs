// rustfmt-edition: 2021
// Extra corpus (written for the checks, not taken from rustfmt): match arms with guards, @ bindings, ref/mut bindings, arm bodies of every shape, attributes on arms.

// mgd001 a short match that fits anywhere
fn short_one(x:u8)->u8{match x{0=>1,n if n>3=>n,_=>0}}

/* mgd002 guards of growing length */
fn guards(value: Option<i64>, limit: i64, other_limit_with_long_name: i64) -> i64 {
    match value {
        Some(n)if n<0=> -n, // mgd003 negative literal body after the arrow
        Some(n)   if   n == 0   =>   { 0 }
        /* mgd004 block comment between two arms */
        Some(number_with_a_rather_long_name) if number_with_a_rather_long_name > limit && number_with_a_rather_long_name < other_limit_with_long_name => number_with_a_rather_long_name,
        Some(number_with_a_rather_long_name) if number_with_a_rather_long_name > limit || number_with_a_rather_long_name < other_limit_with_long_name || number_with_a_rather_long_name == 424242 => { number_with_a_rather_long_name * 2 }
        // mgd005 line comment before the guard with a call
        Some(n) if is_prime(n,) && !is_even( n ) => compute_something_expensive_with_a_long_name(n, limit, other_limit_with_long_name, "string argument"),
        Some(n) if matches!(n, 1..=9) => { let doubled = n*2; doubled }, // mgd006 trailing comma after a block body
        Some(_)=>{}
        None => (),
    }
}

// mgd007 bindings with at
fn at_bindings(v: Value) -> u32 {
    match v {
        whole@Value::Number(_)=>use_it(whole),
        Value::Pair(first @ 0..=9, second@(10|20|30)) => first+second, /* mgd008 after an arm with nested at */
        Value::Wrapped(inner @ Inner{field:name@Some(_),..}) if name.is_some() => consume(inner,name),
        ref r @ Value::Text(ref s) if s.len()>10 => r.len() as u32,
        ref   mut   m@Value::List(..) => { m.clear(); 0 }
        // mgd009 binding mode keywords before an identifier
        mut owned => { owned.reset(); owned.count() }
    }
}

fn bodies(k: Kind, state: &mut State) -> Result<Output, Error> {
    'outer: loop {
        let r = match k {
            Kind::A => return Ok(Output::default()), // mgd010 return as a body
            Kind::B=>break 'outer,
            Kind::C => continue 'outer,
            /* mgd011 closure as an arm body */
            Kind::D => |x:u32|x+1,
            Kind::E => if state.ready { 1 } else { 2 },
            Kind::F => match state.inner { Inner::X => 1, Inner::Y => 2, },
            Kind::G => unsafe { read_volatile(state.ptr) },
            // mgd012 before an arm whose body is a long method chain
            Kind::H => state.items.iter().filter(|item| item.is_enabled_and_visible()).map(|item| item.weight_in_grams * 1000).sum::<u64>(),
            Kind::I => Struct { first_field: 1, second_field: "two", third_field: [3.0, 3.5], ..Default::default() },
            Kind::J => vec![1,2,3],
            Kind::K => (1,2,),
            Kind::L => [0u8;16],
            Kind::M => loop { break 5 },
            Kind::N => async move { state.run().await },
            Kind::O => panic!("mgd is not a comment tag here: {}", 1), /* mgd013 after a macro body */
            Kind::P => state.value?,
            Kind::Q => &mut *state,
            Kind::R => -1 as i64 as u64,
        };
    }
}

// mgd014 attributes on arms and on the match itself
fn attributed(x: Target) -> &'static str {
    #[allow(unreachable_patterns)]
    match x {
        #[cfg(unix)] Target::Unix => "unix",
        #[cfg(windows)]
        #[doc(hidden)]
        Target::Windows=>"windows",
        #[cfg(all(target_os="linux",target_arch="x86_64",target_pointer_width="64",feature="something_quite_long"))] Target::Linux64 if cfg!(debug_assertions) => "linux64",
        // mgd015 the wildcard arm comes last
        _=>"other"
    }
}

fn scrutinees(a: A, b: B) {
    match (a,b) { (A::X,B::Y)=>{}, _=>{} }
    match a.method().other_method(1,2).await? { Ok(v)=>v, Err(e)=>return Err(e.into()), };
    /* mgd016 a struct literal scrutinee needs its parentheses */
    match (Point{x:1,y:2}) { Point{x,y}=>x+y };
    match &mut *a { A::X=>1, A::Z{..}=>2, };
    match { let t = compute(); t } { 0 => zero(), _ => nonzero() } // mgd017 block as scrutinee
    match if b.flag { 1 } else { 2 } { 1 => {} _ => {} }
    match a { }
    match r#match { r#type @ Kw::r#fn => r#type, r#struct => r#struct }
    match a_very_long_function_name_for_the_scrutinee(first_argument_expression, second_argument_expression, third_argument) { Some(überraschung) if überraschung == "größe" => "ünïcödé", _ => "plain" };
}

// mgd018 guards that contain blocks, closures and let
fn odd_guards(x: Option<Vec<u8>>) -> usize {
    match x {
        Some(v) if { let n = v.len(); n > 3 } => 1,
        Some(v) if v.iter().any(|b|*b==0) => 2, // mgd019 closure inside a guard
        Some(v) if (match v.first() { Some(1)=>true, _=>false }) => 3,
        Some(v) if unsafe{check(&v)} => 4,
        /* mgd020 last arm without comma and with an empty block */
        _ => {}
    }
}
