// Extra corpus (written for the checks, not taken from rustfmt): separators that are NOT optional. The comma of a one-element tuple.
fn one_tuple_exprs(v: Vec<u32>) {
    let a = (1,);
    let b = (|r: u32| {
        let s = r + 1;
        s * 2
    },);
    let c = (match v.len() {
        0 => 1,
        _ => 2,
    },);
    let d = (if v.is_empty() {
        some_rather_long_function_name_number_one(v.len())
    } else {
        some_rather_long_function_name_number_two(v.len())
    },);
    let e = ((1, 2),);
    let f = (Foo { a: 1, b: 2 },);
    let g = (vec![1, 2, 3],);
    let h = (loop {
        break 1;
    },);
    let i = (v.iter().map(|x| x + 1).filter(|x| x % 2 == 0).map(|x| x * some_rather_long_multiplier).collect::<Vec<_>>(),);
    let j = (unsafe {
        dangerous_call_with_a_rather_long_name(v.as_ptr(), v.len(), another_argument_of_the_call)
    },);
    call_taking_a_tuple((|x| {
        x + 1
    },));
    call_taking_a_tuple(("a rather long string literal that will not fit on the line together with the rest of the call, for sure",));
}

fn one_tuple_patterns(t: (u32,), u: ((u32, u32),)) {
    let (a,) = t;
    let ((b, c),) = u;
    match t {
        (0,) => {}
        (some_rather_long_binding_name_that_pushes_the_pattern_over_the_width_of_the_narrow_pages @ 1..=9,) => {}
        (_,) => {}
    }
    for (x,) in list_of_one_tuples() {}
    let f = |(y,): (u32,)| y;
    if let (Some(z),) = (opt,) {}
}

fn one_tuple_types(a: (u32,), b: Box<(String,)>) -> (u32,) {
    let x: (SomeRatherLongTypeNameNumberOne<WithAGenericArgument, AndAnotherOne, AndYetAnotherOneToBeSure>,) = make();
    let y: fn((u32,)) -> (u32,) = id;
    a
}

impl Trait for (u32,) {}
impl<T> Trait for (Vec<T>,) where (T,): Other {}
type One = (u32,);
struct HoldsOne((u32,));
