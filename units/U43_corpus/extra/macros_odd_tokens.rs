// rustfmt-edition: 2021
// Extra corpus (written for the checks, not taken from rustfmt): macro calls whose arguments are odd but valid token sequences: bare keywords and punctuation, types, patterns, items, statements, unusual literals, strings that look like comments.

fn punctuation_and_keywords(){
    // odd001 nothing but separators
    m!(,);m!(;);m!(,,);m![;;];m!{,;}
    m!(a,,b);m!(a;;b);m!(a,;b);
    /* odd002 bare punctuation */
    m!(=>);m!(->);m!(<-);m!(..);m!(...);m!(..=);m!(::);m!(#);m!(?);m!(~);m!(@);m!($);m!(_);m!(!);m!(|);m!(||);m!(&&);
    m!(<<<);m!(>>=);m!(<<=>>);m!(a<b>c);m!(+ - * / % ^ & | ! = < > @ . , ; : # $ ? ~);
    // odd003 bare keywords and reserved words
    m!(fn);m!(struct);m!(self);m!(Self);m!(crate);m!(super);m!(if);m!(else);m!(match);m!(where);m!(pub);m!(pub(crate));m!(dyn);m!(impl);m!(unsafe);m!(async);m!(await);m!(move);m!(ref mut);m!(static mut);
    m!(abstract become box do final macro override priv typeof unsized virtual yield try union auto default);
    /* odd004 identifiers next to each other, raw and unicode ones */
    m!(a b c);m!(a b,c d;e f);m!(r#fn r#struct r#self_ r#type);m!(αβγ δ,"→",'∀');
    m!(select * from table_name where column_name = 1 order by other_column desc limit 10 offset 20 and so on until the line is full);
    // odd005 dollars as in macro definitions
    m!($x);m!($x:expr);m!($($x),*);m!($crate::path);m!($($k=>$v);+ $(;)?);
}

fn things_that_are_not_expressions(){
    // odd006 types
    m!(Vec<u8>);m!(u8,u16,u32);m!(&'a mut T);m!(dyn Trait+Send+'static);m!(impl Fn(u8)->u8);m!([u8;4]);m!(fn(u8)->u8);m!(*const u8);m!(<T as Trait>::Assoc);m!(for<'a> fn(&'a u8));m!(!);m!((u8,));
    m!(HashMap<String,Vec<Option<Box<dyn Fn(&str)->Result<(),Box<dyn Error+Send+Sync>>>>>>,BTreeMap<u64,String>);
    /* odd007 patterns */
    m!(Some(x)|None);m!(ref mut x);m!(x@1..=2);m!(&[first,..,last]);m!(Struct{a,b:_,..});m!(1|2|3 if x);m!(box x);m!(mut y);
    // odd008 items and statements
    m!(struct S;);m!(struct S{a:u8});m!(fn f(){});m!(impl S{});m!(mod m{});m!(const C:u8=1;);m!(type T=u8;);m!(enum E{A,B});m!(trait Tr{});m!(extern crate std;);
    m!(let x=1;);m!(let x=1;x+1);m!(let x=1;let y=2;x+y);m!(x=1;y=2);
    /* odd009 attributes and visibility */
    m!(#[a] b);m!(#![inner]);m!(#[cfg(test)] fn f(){});m!(#[a]#[b]#[c]);m!(pub(in a::b) struct S;);
    // odd010 named and typed argument lists
    m!(a:u8,b:u16);m!(a=1,b=2);m!(a=>1,b=>2);m!(a:1,b:2);m!(name="x",value:3;flag);m!(key:"value";other_key:[1,2,3];third_key:{nested:true});
    m!(T:Clone+'a,U:?Sized);m!(where T:Clone);m!('a:'b+'c);m!(<T>);m!(::<T>);m!(->u8);m!(=>{});
}

fn odd_expressions(){
    // odd011 field and index chains on literals, ranges, unary chains, casts
    m!(a.0 .1);m!(t.0 .1 .2);m!(1..);m!(..=2);m!(..);m!(a..b);m!(-1);m!(--1);m!(!!a);m!(&&a);m!(&&mut a);m!(**a);m!(a as u8 as u16);m!(-a as u8);m!(&raw const x);
    /* odd012 closures, blocks, control flow and jumps */
    m!(||{});m!(|a|a);m!(move||());m!(async{});m!(async move{});m!(unsafe{});m!(const{1});m!('l:{break 'l});m!(x?);m!(return);m!(break);m!(break 'a);m!(continue 'a);m!(return 1);m!(yield);
    m!(if a{b}else{c});m!(match x{});m!(loop{});m!(while let Some(x)=it.next(){});m!(for _ in 0..1{});m!(if let Some(x)=y{x}else if z{1}else{2});
    // odd013 assignments and comparisons
    m!(x=y=z);m!(a+=1);m!(a<<=b>>c);m!(a==b!=c);m!(a<b,c>d);m!(a<b,c>(d));m!(a&&b||c^d&e|f);
    /* odd014 macro calls glued together */
    m!(a!b);m!(a!(b)!(c));m!(a![]!{});m!(a!(b);c!(d);e!{f});m!(a!(),b![],c!{},);
    // odd015 nested delimiters
    m!(([{}]));m!({[()]});m![[[[]]]];m!{{{{}}}}
    m!((),[],{},((),),[[],],{{}});m!((a)(b)(c));m!([a][b]{c}{d});m!(a(b[c{d}]));
}

fn unusual_literals(){
    // odd016 numbers in every base and with every suffix
    m!(1_000u64,0xFFu8,0o777i32,0b1010_1010usize,1e-3f32,1E+10,1.0e0_f64,1_f32,0.5,1.,1i128,0u128,1_2_3,0xdead_BEEF,0b__1,1e1_0);
    m!(1.0.0);m!(1.e3);m!(0.0.0 .0);m!(1 .. 2);m!(1..2..3);m!(1.max(2));m!((1).0);m!(1u8 as u16 as u32 as u64);
    /* odd017 characters and bytes */
    m!('a','\'','"','\\','\n','\x41','\u{0}','\u{10FFFF}','/','*','é','日',' ');m!(b'a',b'\'',b'\\',b'\x00',b'/');
    m!('a 'b 'static '_);m!('a,'a');m!('a:'b);m!(&'a ());
    // odd018 strings that look like comments or contain delimiters
    m!("// not a comment","/* not a comment */","*/","/*");m!("http://example.com/path?query=1#fragment");m!("unbalanced ( [ { in a string","and } ] ) the other way");
    m!(r"raw \ string",r#"with "quotes" inside"#,r##"with "# inside"##,r###"// /* "## */"###);m!(b"bytes",br"raw bytes",br#"raw "bytes""#,b"\x00\xff");
    m!("a string with a line
break inside","and a continuation \
        after a backslash","tab\there");
    /* odd019 empty and unicode strings */
    m!("","",r"",r#""#,b"");m!("ünïcödé 日本語 العربية 🎉 \u{1F600}","zero\0width\u{200B}");
    m!("a string literal that is long enough not to fit into the maximum width together with anything else whatsoever",1);
}

// odd020 odd token sequences in item position
m!{ /// a doc comment is a token here
    struct   Documented ; }
m!{ #![feature(something)] mod x ; }
m!(pub struct S<'a,T:'a+?Sized>(&'a T) where T:Debug;);
m![ => -> <- ];
/* odd021 the last call of the file */
m!{ @internal $($tt:tt)* ; 'lifetime "string" 'c' 1.0 }
