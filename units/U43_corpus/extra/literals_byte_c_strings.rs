// rustfmt-edition: 2021
// Extra corpus (written for the checks, not taken from rustfmt): byte strings, raw byte strings, C strings and raw C strings, with escapes, continuations and multi-line bodies.

// bcs001 byte strings have array type
const   MAGIC:&[u8;4]=b"\x7fELF" ;
const BYTES_WITH_ESCAPES : & [ u8 ] = b"\n\r\t\\\0\'\"\x00\xff\x80" ; /* bcs002 eight bit hex escapes are allowed here */
const EMPTY_BYTES:&[u8;0]=b"";
static RAW_BYTES:&[u8]=br"raw \x00 bytes \n stay as they are";
static RAW_BYTES_HASH : &'static [u8] = br#"with "quotes" inside"# ;
static RAW_BYTES_HASHES:&[u8]=br###"with "## inside"###;
// bcs003 the C string flavours
const C_PLAIN:&core::ffi::CStr=c"hello";
const C_ESCAPES : &CStr = c"tab\t newline\n hex\xff unicode\u{00e9} quote\" " ;
const C_EMPTY:&CStr=c"";
const C_RAW:&CStr=cr"raw \n c string";
const C_RAW_HASH:&CStr=cr#"raw "quoted" c string"#; /* bcs004 raw with a hash */
const C_UNICODE:&CStr=c"Grüße 你好 🎉";

fn continuations_and_lines( ){
    // bcs005 a continuation in a byte string
    let a=b"first \
            second \
      third";
    let b = c"c string \
              continued" ;
    let c=b"multi
line
    byte string";   /* bcs006 after a multi-line byte string */
    let d = br"raw multi
	line \
        bytes";
    let e=cr#"raw
"multi"
    line c"#;
    // bcs007 lists of them
    let list=[b"aaaa",b"bbbb" , b"cc\
cc",];
    let tuple = ( c"one" , cr"two",b"three" ,br#"four"# , ) ;
}

fn in_calls_and_chains(out:&mut Vec<u8>){
    out.extend_from_slice(b"HTTP/1.1 200 OK\r\nContent-Type: text/plain; charset=utf-8\r\nContent-Length: 0\r\nConnection: close\r\n\r\n");
    out . write_all ( b"short" ) . unwrap ( ) ;
    // bcs008 a C string handed to a foreign function
    unsafe{ puts ( c"printed through the C library".as_ptr( ) ) ; }
    unsafe { printf(c"%s has %d items and a rather long format string so that this call will not fit on one line\n".as_ptr(),name.as_ptr(),count as core::ffi::c_int) };
    let len = b"abc".len()+br"def".len( ) + c"ghi".to_bytes().len()+cr"jkl" . count_bytes() ; /* bcs009 methods on each flavour */
    let first=b"indexing a literal"[0];
    let slice = & b"slicing a literal"[ 2 .. 5 ] ;
    let deref=*b"xy";
    let cmp = b"abc"<b"abd"&&c"x"!=c"y" ;
}

fn in_patterns(buf:&[u8])->u8{
    match buf{ b""=>0, // bcs010 empty byte string pattern
        b"GET " | b"PUT "|b"POST" => 1 ,
        br"\r\n" => 2,
        /* bcs011 a slice pattern made of byte chars is a neighbour of the byte string */
        [b'a',b'b',..] => 3 ,
        _=>255 }
}
fn long_pattern(buf:&[u8])->u8{ match buf { b"a very long byte string pattern which makes this arm far too wide to stay on one line with its body" => { 4 } _=>5 } }

fn byte_strings_vs_identifiers( b:u8 , c : u8,br:u8, cr:u8 ) {
    // bcs012 the prefixes are ordinary names when no quote follows
    let x = b + c+br + cr ;
    let y=(b,b"b",c,c"c",br,br"br",cr , cr"cr");
    let r#b=b"raw ident b";
    call(b , /* bcs013 between */ b"b" ,c"c") ;
}

fn long_ones(){
    let long_bytes = b"Lorem ipsum dolor sit amet, consectetur adipiscing elit, sed do eiusmod tempor incididunt ut labore et dolore";
    let long_c = c"Lorem ipsum dolor sit amet, consectetur adipiscing elit, sed do eiusmod tempor incididunt ut labore et dolore magna";
    // bcs014 long ones inside nested calls
    let nested = outer_function(inner_function(b"0123456789abcdef0123456789abcdef0123456789abcdef0123456789abcdef", c"0123456789abcdef0123456789abcdef"), br"\x00\x01\x02");
    let s=b"x";let t=c"y";let   u  =  br"z" ;let v=cr"w";
    let non_ascii_escape = b"caf\xc3\xa9 written with utf-8 bytes" ; /* bcs015 bytes above 127 need escapes */
}

// bcs016 attributes and statics
#[link_section=".rodata.str"] #[export_name="exported_under_this_name"]
pub static GREETING:[u8;14]=*b"Hello, world!\n";
#[no_mangle]pub static VERSION:&CStr=c"1.2.3-beta+build.456";
struct Holder{ bytes:&'static[u8], // bcs017 after a field
    text : & 'static CStr }
const HOLDER:Holder=Holder{bytes:b"bytes",/* bcs018 between field values */text:c"text"};

fn in_macros(){
    assert_eq!(b"abc",&[b'a',b'b',b'c']);
    let v = vec![ b"one".as_slice() , br"two" , b"three" ];
    println!("{:?} {:?}",   b"bytes"  ,c"c string" ) ;
    // bcs019 include_bytes yields the same type as a byte string
    let m=matches!(buf,b"ab"|b"cd");
}
