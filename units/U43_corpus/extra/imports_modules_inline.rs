// rustfmt-edition: 2021
// Extra corpus (written for the checks, not taken from rustfmt): inline module definitions, empty and nested, with inner and outer attributes, restricted visibility, and imports through self and super inside them.

// imi001 empty modules in every layout
mod a{}
mod   b   {   }
mod c {

}
mod d
{
} // imi017 the brace was on its own line
pub mod e{}
pub(crate) mod f {}
pub ( crate ) mod g { }
pub(super) mod h{}
pub(self) mod i{}
pub(in crate::outer) mod j{}
pub ( in   super :: super ) mod k {}
/* imi002 a module that only contains a comment follows */
mod only_a_comment {
    // imi003 the only thing in this module
}
mod only_a_block_comment { /* imi004 alone on the line of the braces */ }
unsafe mod unsafe_module_is_parsed_but_rejected_later {}
pub unsafe mod public_unsafe_module { fn inside() {} }

// imi005 modules with a single item written on one line
mod one_fn { fn f(){} }
mod one_use { use super::*; }
mod one_const { pub const C:u8=0; }
mod one_mod { mod inner{} }
mod one_mod_with_item { pub mod inner { pub fn f(){} } }
/* imi018 raw and unicode module names */
mod r#mod { pub mod r#fn { pub mod r#use {} } }
mod größe { pub mod 名前 { pub fn α(){} } }
mod a_module_with_an_exceedingly_long_name_that_takes_up_most_of_the_line_width_all_by_itself_and_then_some_more { }
pub(in crate::a_module_with_a_long_name::another_module_with_a_long_name::a_third_module_with_a_long_name) mod long_visibility { fn f(){} }

/* imi006 nesting five levels deep on one line */
mod l1 { pub mod l2 { pub(crate) mod l3 { pub(super) mod l4 { pub(in crate::l1::l2) mod l5 { pub fn deep(){} } } } } }
// imi019 siblings at several levels
mod m1 { mod m2 {} mod m3 { mod m4 {} mod m5 {} } mod m6 {} }

// imi007 outer attributes, doc comments and cfg on modules
#[cfg(test)] mod tests { use super::*; #[test] fn it_works(){ assert_eq!(1,1); } }
#[cfg(test)]mod tests_again{#[test]#[ignore]fn ignored(){}}
#[allow(dead_code)]#[cfg(any(unix,windows))]#[doc(hidden)]pub mod attributed{}
#[cfg(all(feature="first-feature-with-a-long-name",feature="second-feature-with-a-long-name",not(feature="third-feature-with-a-long-name")))] mod configured { }
/// A documented module.
mod documented { }
/** A block documented module. */
pub mod block_documented { pub fn f(){} }
#[doc = "documented by attribute"] mod attribute_documented {}
/* imi020 attributes that matter to module resolution */
#[path="some/other/place"] mod inline_with_path { fn f(){} }
#[macro_use] mod macros_are_exported_from_here { }
#[rustfmt::skip::macros(some_macro)] mod with_tool_attribute { fn f(){ some_macro!( a , b ); } }

/* imi008 inner attributes and inner doc comments */
mod inner_attributes { #![allow(unused)] #![cfg_attr(feature="x",deny(warnings))] fn f(){} }
mod inner_docs {
    //! Inner line documentation of the module.
    //! A second line of it.
    #![allow(missing_docs)]
    fn f(){}
}
mod inner_block_docs { /*! Inner block documentation. */ pub fn f(){} }
mod inner_attribute_only { #![no_implicit_prelude] }
#[outer_attribute] mod both_kinds { #![inner_attribute] /* imi009 between inner attribute and item */ struct S; }

// imi010 imports inside modules through self, super and crate, to be reordered
mod with_imports {
    use super::z;use super::a;use self::inner::q;use crate::top;use std::fmt;use ::absolute::path;
    // imi011 between imports and the items of the module
    pub(super) use self::inner::{c,b,a};
    pub(super) fn visible_in_parent(){}
    pub(in crate::with_imports) struct VisibleHere;
    mod inner { pub(in super::super) fn up_two(){} pub(in crate::with_imports::inner) fn just_here(){} }
}

/* imi012 modules interleaved with other items and blank lines */
mod z_first {} mod y_second {} mod x_third {}
fn between_modules(){}
mod w_fourth {}

mod v_fifth {}



mod u_sixth {} // imi013 trailing comment after an empty module
mod t_seventh { fn f(){} } /* imi014 trailing block comment after a module */

// imi015 modules inside function bodies, blocks, impls of traits and other modules
fn function_with_modules() {
    mod in_fn { pub fn f(){} }
    in_fn::f();
    pub(crate) mod in_fn_restricted {}
    /* imi016 before the nested block */
    { mod in_block { use super::*; } #[cfg(test)] mod in_block_tests {} }
    let closure = || { mod in_closure {} };
    if true { mod in_if {} } else { mod in_else { fn f(){} } }
}
const IN_CONST: () = { mod in_const_block { pub struct S; } };
