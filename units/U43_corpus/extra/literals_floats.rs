// rustfmt-edition: 2021
// Extra corpus (written for the checks, not taken from rustfmt): float literals with and without fraction, exponent, suffix and underscores, and the bare trailing dot next to operators, ranges and closers.

// flt001 the ordinary spellings
const   A:f64=1.0 ;const B : f64 = 0.5;const C:f64=3.141592653589793238462643383279502884197;const D:f32=1.0f32;const E:f64=1.0_f64;
const F:f64=1e10;const G:f64=1E10;const H:f64=1e+10;const I:f64=1e-10;const J:f64=1.5e10;const K:f64=1.5E-10 ; /* flt002 exponents of either case and sign */
const L:f32=1f32;const M:f64=1_f64;const N:f32=1e3f32;const O:f64=1.0E-3_f64;const P:f64=1_000.000_1;const Q:f64=1_e3;const R:f64=1e_3;const S:f64=1__0.0__1e+_1_;
const T:f64=0.0;const U:f64=-0.0;const V:f64=00.00;const W:f64=007.700;const X:f64=1.7976931348623157e308;const Y:f64=5e-324;const Z:f32=3.40282347E+38_f32;
// flt003 the half and quad precision suffixes
const HALF:f16=1.5f16;const QUAD : f128 = 1.5e4000f128 ;

fn trailing_dot(x:f64)->f64{
    // flt004 a dot with nothing after it, before every kind of follower
    let a=1.;let b = 1. ;let c=(1.);let d=[1.];let e=[1.;3];let f=(1.,);let g=(1.,2.,3.,);let h=[1.,2.,];
    let i=1.+2.;let j=1.-2.;let k=1.*2.;let l=1. / 2.;let m=1.%2.;let n=1.<2.;let o=1.==1.;let p=1.>=x ;
    let q=Point{x:1.,y:2.};let r=Point { x : 1. , y:-2. } ; /* flt005 before a closing brace */
    let s=1. as f32;let t=-1.;let u=- 1. ;let v=f(1.);let w=f(1.,2.);
    let y=if x<0.{-1.}else{1.};let z=|v:f64|v*2.;
    a+b
}

fn dots_and_ranges(t:(f64,(f64,f64))){
    // flt006 a range of floats needs a space when the left side ends in a dot
    let a=0.0..1.0;let b = 0. ..1.;let c=0. ..=1.;let d= ..1.;let e=1. ..;let f=(0.5..);let g=..=0.5;
    let h=0..1;let i = 1.0 .. 2.0 ; /* flt007 the integer range for contrast */
    let j=1.0.sqrt();let k=2.0f32.sqrt();let l=1.0_f64.max(2.0).min(3.);let m=(1.).sin();let n = 1e3.floor( ) ;let o=1.5e-3f64.ln_1p();
    let p=t.0+t.1.0*t.1.1;let q = t . 1 . 0 ;
    let r=-1.0f64.abs();let s=(-1.0f64).abs() ; // flt008 minus binds less tightly than the method call
    let casts=(1.9 as i32,1e3 as u64 , -1.5f32 as i8 as u8,1 as f64/3 as f64, 2.0f32 as f64 as f32);
}

fn field_access_on_an_integer_that_looks_like_a_float(){
    // flt009 these three are an integer followed by a field name, and they parse
    let a=1.e3;let b = 1.f32 ;let c=2.E5.e1;
}

fn float_patterns(x:f64)->u8{
    match x{ 0.0=>0, // flt010 a literal pattern
        1.0|2.0 | 3.=>1,
        -1.0=>2, - 2.5e0 => 3 ,
        /* flt011 ranges of floats */
        4.0..=5.0=>4,-10.0..=-5.0 => 5,6.0 ..= 7. =>6,
        f64::MIN..=-1e100=>7,1e100..=f64::INFINITY=>8,
        _=>9 }
}

fn arithmetic(){
    let poly=1.0+2.0*x-3.0*x*x+4.0*x*x*x-5.0e-1*x.powi(4)+6.0e-2*x.powi(5)-7.0e-3*x.powi(6)+8.0e-4*x.powi(7);
    let cmp=1e-7<x&&x<1e7||x==0.0||x!=x ; /* flt012 comparison against small and large */
    let neg=1.0- -1.0;let neg2 = 2.0*-3.0 ;let neg3=-(-1.0);let neg4= - - 1.0;
    // flt013 compound assignment
    y+=1.0;y -= 0.5 ;y*=2e0;y/=1E1;y%=3.;
    let lerp=a*(1.0-t)+b*t;let hyp=(x*x+y*y).sqrt();let deg=rad*180.0/std::f64::consts::PI;
    let consts=(f64::EPSILON,f32::MAX , core::f64::consts::E , f64::NAN,f64::NEG_INFINITY);
}

// flt014 floats in items
struct Point{ x:f64, // flt015 after a field
    /* flt016 before a field */ y : f64 }
const ORIGIN:Point=Point{x:0.0,y:0.};static mut SCALE:f32=1.0e0;
const MATRIX:[[f64;3];3]=[[1.0,0.0,0.0],[0.0,1.0,0.0,],[0.,0.,1.],];
impl Default for Point{fn default()->Self{Self{x:0.5,..ORIGIN}}}
trait HasRatio{ const RATIO:f64=1.618033988749894848204586834365638117720309179805762862135448622705260462818902449707207204; }

fn long_lists(){
    let weights=[0.1,0.2,0.3,0.4,0.5,0.6,0.7,0.8,0.9,1.0,1.1,1.2,1.3,1.4,1.5,1.6,1.7,1.8,1.9,2.0,2.1,2.2,2.3,2.4,2.5,2.6,2.7];
    let coefficients:[f64;6]=[1.000000000190015,76.18009172947146,-86.50532032941677,24.01409824083091,-1.231739572450155,0.1208650973866179e-2];
    // flt017 every spelling in one list
    let spellings=[1.,1.0,1e0,1E0,1.0e0,1f64,1.0f64,1e0f64,1_f64,1.0_f64,1e0_f64,1e+0,1e-0,1.0e+0_f64,0.1e1,10e-1,100.0e-2_f64];
    let s=[1.];let t=(2.0,);let   u  =  3e0 ;
    call(1.0,/* flt018 between arguments */2.0 , // flt019 at the end of an argument line
        3.0);
    let very_long_literal = 0.000000000000000000000000000000000000000000000000000000000000000000000000000000000000000000000000000001;
}

fn in_macros(){
    println!("{} {:.3} {:e}",1.0,   2.5f32 ,1e10);
    let v=vec![0.0;16];let w = vec! [ 1. ,2., 3. ,] ;
    assert!((x-1.0).abs()<1e-9,"expected {} to be near {}",x,1.0);
    // flt020 a macro argument that ends in a bare dot
    let m=max!(1.,2.);
}
