// rustfmt-edition: 2021
// Extra corpus (written for the checks, not taken from rustfmt): KNOWN PROBLEM, inner attributes at the start of the body of for, while and loop and of a match without arms are dropped, and so is an outer attribute on a block that is the whole body of a closure.
fn f(){
    for i in 0..1{#![a]}
    // prb001 comment between statements
    for i in 0..1{
        #![a]
        g(i);
    }
    for i in 0..1{#![a]g(i)}
    while x{#![a]}
    while x{
        #![a]
        g();
    }
    /* prb002 block comment between statements */
    loop{#![a]}
    loop{
        #![a]
        g();
    }
    match x{#![a]}
    let c=|x|#[a]{x};
}
