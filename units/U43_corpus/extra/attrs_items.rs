// rustfmt-edition: 2021
// Extra corpus (written for the checks, not taken from rustfmt): outer and inner attributes on every kind of item (crate, mod, fn, struct, enum, union, trait, impl, const, static, type, extern, macro call).
#![allow(dead_code)]   #![   warn( missing_docs ,unused_results) ]
#![feature(   rustc_attrs,
    never_type )]
// ait001 ordinary comment after the crate level inner attributes
#![crate_name="extras_attrs_items"]#![recursion_limit   =   "256"]
#![doc(html_root_url = "https://example.invalid/a/very/long/path/that/goes/on/and/on/for/a/while/to/pass/the/width")]

#[inline]fn a(){}
#[inline] #[must_use] #[cold] fn b()->u8{0}
#[inline(always)]#[must_use="the result of this function really has to be looked at by the caller, otherwise it is pointless"]#[track_caller] pub fn a_function_with_a_rather_long_name_and_many_attributes_in_front_of_it(x:u8)->u8{x}
/* ait002 block comment between two functions */
#[ allow ( unused ) ]
#[
deprecated
(
since = "1.2.3" ,
note = "use something else"
)
]
pub(crate) const unsafe extern "C" fn c ( ) { }

#[repr(C)]#[derive(Clone)]struct S1;
#[repr( C , packed ( 2 ) )] struct S2(u8,u16);
#[repr(align(16))] #[non_exhaustive] pub struct S3{a:u8}
// ait003 line comment before an enum
#[repr(u8)]#[non_exhaustive]enum E1{A=1,B}
#[allow(clippy::large_enum_variant,clippy::enum_variant_names,clippy::upper_case_acronyms,clippy::type_complexity)] enum E2 { }
#[repr(C)] union U1{a:u8,b:u16}
#[allow(non_camel_case_types)]pub union r#union_with_raw_name{a:u8}

#[must_use]#[doc(hidden)]trait T1{}
#[rustc_on_unimplemented(message="the trait is not implemented",label="here it is missing",note="add an impl somewhere")]
pub unsafe trait T2:T1{ }
#[cfg(test)]#[allow(unused)]trait Alias=T1+Send; // ait004 trailing comment after a trait alias
#[automatically_derived]#[allow(clippy::all)]impl T1 for S1{}
#[allow(unused)]unsafe impl<T:?Sized>T2 for T where T:T1{#![allow(unused)]#![deny(warnings)]fn g(){}}
#[allow(unused)]impl S3{
    #![allow(missing_docs)]
    // ait005 comment between inner attribute and first associated item
    #[inline]#[allow(unused)]const K:u8=1;
    #[inline]  fn f(&self){}
    /* ait006 block comment between associated items */
    #[allow(unused)]type   Ty=u8;
    #[cfg(any())]mac!{}
}

#[allow(non_upper_case_globals)]const k:u8=0;
#[allow(unused)]#[deprecated]const _:()=();
#[no_mangle]#[used]#[link_section=".a_section_with_a_long_name.that_goes.on_and_on.and_on.and_on.until.the.line.is.full"]pub static mut A_STATIC_WITH_A_LONG_NAME:[u8;4]=[0;4];
#[thread_local]static T:u8=0;
// ait007 comment before a type alias
#[allow(unused)]#[doc(alias="Other")]type Ty<T>=Vec<T>;
#[allow(type_alias_bounds)]pub type ATypeAliasWithAVeryLongNameIndeed<'a,TheFirstParameter:'a,TheSecondParameter>=std::collections::HashMap<&'a TheFirstParameter,Vec<TheSecondParameter>>;

#[macro_use]#[no_link]extern crate   alloc;
#[macro_use(a_macro,another_macro)]extern crate core as   the_core;
#[link(name="m",kind="static",modifiers="+whole-archive")]#[allow(improper_ctypes)]extern "C"{
    #![allow(unused)]
    #[link_name="actual_name"]#[ffi_const]fn f(x:u8,...)->u8;
    // ait008 comment between foreign items
    #[link_name="other"]static S:u8;
    #[allow(unused)]type Opaque;
    #[cfg(any())]mac!();
}
#[allow(unused)]unsafe extern "system"{}

#[cfg(test)]#[path="a/b/c.rs"]mod m1{}
#[path="some/very/long/path/to/a/module/file/that/does/not/exist/anywhere/on/this/disk/at/all/module.rs"]#[allow(unused)]mod a_module_with_a_path_attribute{ #![allow(unused)] #![path="inner/path"] }
#[cfg(test)]mod m2{#![allow(unused)]#![cfg_attr(rustfmt,allow(x))]
    #[test]#[ignore]#[should_panic(expected="boom")]fn t(){}
    /* ait009 block comment inside a module */
    #[test]#[ignore="this test takes far too long to run on an ordinary machine so it is switched off by default"]fn a_test_function_with_a_long_name(){}
    #[bench]fn bn(b:&mut Bencher){}
    mod m3{#![allow(unused)]}
    mod m4{
        #![allow(unused)]
        // ait010 only a comment and an inner attribute in this module
    }
}
mod é模块{#![allow(uncommon_codepoints)]#[allow(unused)]fn ñ(){}}

#[allow(unused)]mac!{a b c}
#[allow(unused)]#[cfg(any())]mac!(a,b,c); // ait011 trailing comment after an item macro call
#[allow(unused)]mac![1,2,3];
#[allow(unused)]macro_name::with::a::path!{
    some tokens here
}
#[global_allocator]static GLOBAL:Alloc=Alloc;
#[panic_handler]fn panic(_:&PanicInfo<'_>)->!{loop{}}
#[proc_macro_derive(Name,attributes(helper_one,helper_two,helper_three,helper_four,helper_five,helper_six))]pub fn derive(i:TokenStream)->TokenStream{i}
/* ait012 last comment of the file */
#[export_name="exported"]#[doc(hidden)]#[allow(unused)]#[inline(never)]#[cold]#[must_use]#[track_caller]#[allow(clippy::all)]fn z(){
    #![allow(unused)]
    #![deny(unsafe_code)]
}
