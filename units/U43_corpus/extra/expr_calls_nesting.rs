// rustfmt-edition: 2021
// Extra corpus (written for the checks, not taken from rustfmt): function calls and their argument lists, parenthesised expressions, and deep nesting of different expression kinds inside one another, with long right hand sides.

// cal001 call argument lists, short
fn short_calls(){
f();f( );f(a);f(a,);f(a,b);f(a,b,);f ( a , b , c ) ;f((a));f((a),(b));f((a,b));f((a,),); // cal002 parenthesised and tuple arguments
f(g());f(g(h()));f(g(h(i(j()))));f(g(),h(),i());f(g(a,b),h(c,d)); /* cal003 calls as arguments */
a::b::c();<T>::f();<T as U>::f();T::<u8>::f();Self::f();self::f();super::f();crate::f();f::<u8>();f::<u8,u16>(a);f::<{N},'a'>(a); // cal004 callee paths
(f)();(f)(a);(f.g)(a);(f[0])(a);(*f)(a);(&f)(a);(f?)(a);(f.await)(a);(|a|a)(a);(if c {f} else {g})(a);{f}(a);(f as fn(u8))(a);f(a)(b)(c); /* cal005 callee expressions */
r#fn(r#match,r#type);größe(длина);f(1,1.0,'c',"s",b'b',b"bs",r"r",r#"r#"#,true,()); // cal006 raw names, unicode names, every literal kind
}

// cal007 call argument lists that must break
fn long_calls(){
some_function_with_a_long_name(first_argument_with_a_long_name,second_argument_with_a_long_name,third_argument_with_a_long_name);
some_function_with_a_long_name(first_argument_with_a_long_name,second_argument_with_a_long_name,third_argument_with_a_long_name,);
short(first_argument_with_a_long_name+second_argument_with_a_long_name*third_argument_with_a_long_name-fourth_argument_with_a_long_name);
outer_function_name(inner_function_name_one(deep_function_name_one(argument_one,argument_two),deep_function_name_two(argument_three)),inner_function_name_two(argument_four));
/* cal008 comments between arguments */
f(a, // cal009 trailing comment after the first argument
b, /* cal010 block comment after the second argument */
/* cal011 block comment before the third argument */ c,
// cal012 line comment on its own line before the last argument
d);
f(/* cal013 comment before the only argument */ a);f(a /* cal014 comment after the only argument */);
f("a string argument that is long enough to push the line over the limit of one hundred columns, really",second);
f(first,"a string argument that is long enough to push the line over the limit of one hundred columns, really");
f(&[1,2,3,4,5,6,7,8,9,10,11,12,13,14,15,16,17,18,19,20,21,22,23,24,25,26,27,28,29,30,31,32,33,34,35,36,37,38,39,40]);
f(a,b,c,d,e,f,g,h,i,j,k,l,m,n,o,p,q,r,s,t,u,v,w,x,y,z,aa,ab,ac,ad,ae,af,ag,ah,ai,aj,ak,al,am,an,ao,ap,aq,ar,at,au,av,aw,ax,ay,az); // cal015 many short arguments
f(S{a:1,b:2},[1,2,3],(4,5),|x|x,if c {1} else {2},match d {_=>3},{4},unsafe{5},async{6},loop{break 7},x..y,-z,!w,&v,*u,t as u8,s?,r.await);
}

// cal016 last argument overflows
fn overflowing_last_argument(){
f(a,b,|x|{let y=x;y});f(a,b,S{x:first_field_value_with_a_long_name,y:second_field_value_with_a_long_name,z:third_field_value_with_a_long_name});
f(a,b,[first_element_with_a_long_name,second_element_with_a_long_name,third_element_with_a_long_name,fourth_element_with_a_long_name]);
f(a,b,g(first_argument_with_a_long_name,second_argument_with_a_long_name,third_argument_with_a_long_name,fourth_argument_with_long_name));
f(a,b,match x {Some(first_binding_with_a_long_name)=>first_binding_with_a_long_name,None=>default_value_with_a_long_name_for_the_match});
f(a,b,if some_condition_with_a_long_name {first_value_with_a_long_name_for_the_branch} else {second_value_with_a_long_name_for_the_branch});
f(a,b,(first_element_with_a_long_name,second_element_with_a_long_name,third_element_with_a_long_name,fourth_element_with_a_long_name)); // cal017 tuple as the last argument
f(a,b,&mut some_object_with_a_long_name.first_method_in_the_chain().second_method_in_the_chain(argument).third_method_in_the_chain());
f(a,b,unsafe{some_unsafe_function_with_a_long_name(first_argument_with_a_long_name,second_argument_with_a_long_name,third_argument)});
f(a,b,vec![first_element_with_a_long_name,second_element_with_a_long_name,third_element_with_a_long_name,fourth_element_with_a_long_name]);
Some(Ok(Box::new(Wrapper::new(Inner::with_value(some_function_with_a_long_name(first_argument_with_a_long_name,second_argument_with_a_long_name)))))); /* cal018 single argument nesting */
}

// cal019 parentheses
fn parentheses(){
let a=(1);let b = ( ( 1 ) ) ;let c=(((1)));let d=(a+b);let e=((a+b));let f=(a)+(b);let g=((a)+(b));let h=(a+b)*c;let i=a*(b+c);let j=(a*b)+c; // cal020 needed and redundant ones
let k = (x) ; let l = (x.y) ; let m = (x.y()) ; let n = (x[0]) ; let o = (x?) ; let p = (x.await) ; let q = (x as u8) ; let r = (x..y) ; let s = (x=y) ; let t = (x+=y) ; /* cal021 every kind in parentheses */
let u = (|x|x) ; let v = (if a {b} else {c}) ; let w = (match a {_=>b}) ; let y = ({a}) ; let z = (unsafe{a}) ; let aa = (loop{}) ; let ab = (return) ; let ac = (break) ; let ad = (S{x:1}) ; let ae = ([1,2]) ; let af = ((1,2)) ;
let ag = ( // cal022 comment right after the opening parenthesis
a+b) ;
let ah = (a+b /* cal023 comment right before the closing parenthesis */) ;
let ai = (first_operand_with_a_long_name_inside_parentheses+second_operand_with_a_long_name_inside_parentheses)*(third_operand_with_a_long_name-fourth_operand);
let aj = ((((((((((((((((((((((((((((((x)))))))))))))))))))))))))))))) ; // cal024 thirty levels
(a);(a+b);(f());(a,b);((a));(a)=b;(a.b)=c;(a[0])=b;(*a)=b; /* cal025 parenthesised expression statements and assignment targets */
}

// cal026 deep nesting of different kinds with long right hand sides
fn nesting(){
let first_result_with_a_long_name = if some_condition { some_function(match some_value { Some(inner) => [inner.first_field, inner.second_field, inner.third_field], None => [0, 0, 0] }) } else { Default::default() };
let second_result_with_a_long_name = some_vector_with_a_long_name.iter().map(|element| (element.key.clone(), Entry { value: element.value * scaling_factor, flags: [element.flag_one, element.flag_two] })).collect::<HashMap<_, _>>();
some_structure.some_field[index_one][index_two].some_inner_field = Some(Box::new(Inner { first: (first_value_one, first_value_two), second: [second_value_one, second_value_two], third: |x| x + captured_value }));
let third = [[(1,2),(3,4)],[(5,6),(7,8)]][i][j].0+{let t=(a,b);t.0*t.1}+if let Some((x,y))=p {x+y} else {0}+match (q,r) {(Some(x),Some(y))=>x*y,_=>0}; // cal027 compact nesting
*some_mutable_reference_with_a_long_name.entry(some_key_expression_with_a_long_name.clone()).or_insert_with(||Vec::with_capacity(initial_capacity_with_a_long_name)) += 1;
let fourth_result_with_a_long_name: Result<Vec<(String, Option<Box<dyn Fn(u8) -> u8>>)>, Box<dyn std::error::Error + Send + Sync>> = Ok(vec![(String::new(), None)]);
let fifth_result_with_a_long_name = some_function_name_that_is_long(argument_one)? + another_function_name_that_is_long(argument_two)? * third_function_long(argument_three)?;
let sixth = a.b(c.d(e.f(g.h(first_innermost_argument_with_a_long_name, second_innermost_argument_with_a_long_name))));
/* cal028 right hand side that is a single very long path and a single very long string */
let seventh = some_crate_name::some_module_name::some_inner_module_name::some_even_more_inner_module_name::SOME_CONSTANT_WITH_A_VERY_LONG_NAME_INDEED;
let eighth = "a single very long string literal on the right hand side of a let statement that cannot possibly fit in one hundred columns";
}
