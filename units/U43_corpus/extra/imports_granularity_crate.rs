// rustfmt-edition: 2021
// Extra corpus (written for the checks, not taken from rustfmt): imports to be merged into one use declaration per crate: shared prefixes, self, globs, aliases, visibility and attributes that must block merging.
// rustfmt-imports_granularity: Crate

// igr001 plain imports of one crate spread over several declarations
use a::b;
use a::c;
use a::d::e;
use a::d::f;
use a::d::g::h; // igr018 three levels deep
use a::d::g::i;

/* igr002 an import of a module and of things inside that module gives self */
use b::c;
use b::c::d;
use b::c::e::f;
use b::c::e;
use b::{c::e::g};

// igr003 lists that are already nested are merged with flat ones
use c::{d,e::{f,g}};
use c::e::h;
use c::{e::{i::j}};
use c::d::k;
use c::{ l , m , } ; /* igr019 spaces and a trailing comma */

/* igr004 globs merge like any other name */
use d::*;
use d::e::*;
use d::e::f;
use d::g::{*};
use d::g::{self};

// igr005 aliases and underscore aliases are kept apart from the plain name
use e::f as g;
use e::f;
use e::f as h;
// igr020 two anonymous imports
use e::T as _;
use e::U as _;
use e::i::{self as eye,j as jay};
use e::i;

/* igr006 self, super and crate as the first segment */
use self::a::b;
use self::a::c;
use super::a::b;
use super::a::c;
use super::super::d;
use crate::x::y;
use crate::x::z;
use crate::w;
/* igr021 leading colons are a different root */
use ::f::g;
use ::f::h;
use f::i;

// igr007 different visibilities must not be merged with one another
pub use g::a;
pub use g::b;
use g::c;
use g::d;
pub(crate) use g::e;
pub(crate) use g::f;
pub(super) use g::h; // igr022 the only one with this visibility
pub(in crate::g) use g::i;
pub(in crate::g) use g::j;

/* igr008 attributes and documentation must block merging of that import */
use h::a;
#[cfg(unix)] use h::b;
use h::c;
#[cfg(unix)] use h::d;
/// Documented import.
use h::e;
use h::f;
#[allow(unused_imports)]use h::g;

// igr009 trailing comments on imports that would otherwise be merged
use i::a;
use i::b; // igr010 trailing comment on an import that could merge
use i::c;
use i::d; /* igr011 trailing block comment on an import that could merge */
use i::e;

/* igr012 duplicates and near duplicates */
use j::a;
use j::a;
use j::{a,b};
use j::{b,a,};
use j::{self}; /* igr023 self alone in braces */
use j::{self,a};

// igr013 groups separated by blank lines stay separate even for one crate
use k::a;
use k::b;

use k::c;
use k::d;

/* igr014 long names so that the merged list needs several lines */
use a_crate_with_a_long_name::a_module_with_a_long_name::FirstTypeWithARatherLongName;
use a_crate_with_a_long_name::a_module_with_a_long_name::SecondTypeWithARatherLongName;
use a_crate_with_a_long_name::another_module_with_a_long_name::a_function_with_a_rather_long_name;
use a_crate_with_a_long_name::another_module_with_a_long_name::nested_module::{ThirdType,FourthType};
use a_crate_with_a_long_name::ATypeAtTheRootOfTheCrate;

// igr015 raw and unicode identifiers
use r#mod::r#fn;
use r#mod::r#type::r#struct;
use r#mod::r#type::r#enum;
// igr024 identifiers outside ascii
use straße::größe;
use straße::länge::{kurz,lang};
use straße::länge::mittel;

/* igr016 merging inside a function body and an inline module */
fn function_with_mergeable_imports() {
    use l::a;use l::b;use l::c::d;
    // igr017 between statements
    use l::c::e;
    let x = 0;
    use m::a;use m::b;
}
mod module_with_mergeable_imports { use super::a;use super::b;use self::inner::c;use self::inner::d; mod inner {} }
