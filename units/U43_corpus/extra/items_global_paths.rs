// rustfmt-edition: 2021
// rustfmt-space_after_colon: false
// Extra corpus (written for the checks, not taken from rustfmt): globally qualified paths (leading ::) in every type position of items, directly after a colon; with space_after_colon=false the output reads `a:::std::X` which no longer parses.

struct   Braced{a: ::std::string::String,pub b: ::core::option::Option<::std::vec::Vec<u8>>,}
// igp001 tuple structs have no colon before the type
struct Tuple(::std::string::String,pub ::core::primitive::u8,pub(crate) ::std::vec::Vec<::core::primitive::u8>);
union Un{a: ::core::primitive::u8,b: ::core::mem::ManuallyDrop<::std::string::String>}
enum En{V{a: ::std::string::String},W(::std::string::String),X=::core::primitive::u8::MAX as isize}
/* igp002 consts and statics */
const C: ::core::primitive::usize=::core::mem::size_of::<::core::primitive::u64>();
static S: ::core::sync::atomic::AtomicUsize=::core::sync::atomic::AtomicUsize::new(0);
static mut M: ::core::primitive::u8=0;
const _: ::core::marker::PhantomData<::std::string::String>=::core::marker::PhantomData;
// igp003 fn parameters and return types
fn f(x: ::std::string::String,y: &::std::path::Path,z: &mut ::std::vec::Vec<u8>)-> ::std::io::Result<()>{Ok(())}
fn g(mut a: ::core::primitive::u8,ref b: ::core::primitive::u16,(c,d): (::core::primitive::u8,::core::primitive::u8),_: ::core::primitive::bool){}
fn a_function_with_a_long_name_and_global_paths(first_argument: ::std::collections::HashMap<::std::string::String,::std::vec::Vec<u8>>,second_argument: ::std::sync::Arc<::std::sync::Mutex<::core::primitive::u64>>)-> ::core::option::Option<::core::primitive::u8>{None}
/* igp004 bounds in generic parameter lists and where clauses */
fn h<T: ::core::clone::Clone,U: ::core::marker::Send+::core::marker::Sync,const N: ::core::primitive::usize>(){}
fn i<T>()where T: ::core::clone::Clone,::std::vec::Vec<T>: ::core::fmt::Debug,<T as ::core::iter::Iterator>::Item: ::core::marker::Copy{}
struct G<T: ::core::fmt::Debug>(T);
enum GE<T: ::core::fmt::Debug>{A(T)}
type Al<T: ::core::fmt::Debug>=::std::vec::Vec<T>;
type Dy=dyn ::core::ops::Fn(::core::primitive::u8)-> ::core::primitive::u8+::core::marker::Send;
type Bx=::std::boxed::Box<dyn ::core::iter::Iterator<Item=::core::primitive::u8>>;
// igp005 traits with supertraits and associated items
trait Tr: ::core::fmt::Debug+::core::clone::Clone{
    type A: ::core::marker::Copy;
    type B: ::core::marker::Copy=::core::primitive::u8;
    const K: ::core::primitive::usize;
    const L: ::core::primitive::usize=0;
    fn m(&self,x: ::core::primitive::u8)-> ::core::primitive::u8;
    fn n(self: ::std::boxed::Box<Self>); // igp006 a self parameter with a global path type
    fn o(self: ::core::pin::Pin<&mut Self>,cx: &mut ::core::task::Context<'_>)-> ::core::task::Poll<()>;
}
/* igp007 impl headers and impl items */
impl<T: ::core::fmt::Debug> ::core::fmt::Display for G<T> where T: ::core::fmt::Display{
    fn fmt(&self,f: &mut ::core::fmt::Formatter<'_>)-> ::core::fmt::Result{Ok(())}
}
impl ::core::default::Default for ::my_crate::Thing{
    fn default()-> ::my_crate::Thing{::my_crate::Thing}
}
impl Tr for ::my_crate::Thing{
    type A=::core::primitive::u8;
    const K: ::core::primitive::usize=1;
    fn m(&self,x: ::core::primitive::u8)-> ::core::primitive::u8{x}
}
// igp008 extern blocks
extern "C"{
    static ES: ::core::ffi::c_int;
    static mut EM: ::core::ffi::c_int;
    fn ef(a: ::core::ffi::c_int,b: *const ::core::ffi::c_char,...)-> ::core::ffi::c_int;
}
/* igp009 inside bodies: let types, closure parameters, struct literal fields, casts */
fn body(){
    let a: ::core::primitive::u8=1;
    let (b,c): (::core::primitive::u8,::core::primitive::u16)=(1,2);
    let d=|x: ::core::primitive::u8,y: &::core::primitive::str|x;
    let e=Braced{a: ::std::string::String::new(),b: ::core::option::Option::None}; // igp010 fields initialised with global paths
    let f=a as ::core::primitive::u16;
    let g=En::V{a: ::std::string::String::new()};
    match e{Braced{a: ::my_crate::PATTERN_CONSTANT,b: ::core::option::Option::None}=>{},_=>{}}
}
mod m{pub(in crate::m) struct V;struct W{pub(in crate::m) a: ::core::primitive::u8}}
fn short(x: ::X){}
const SH: ::X=::Y;
