// rustfmt-edition: 2021
// Extra corpus (written for the checks, not taken from rustfmt): char and byte char literals with every escape, next to lifetimes and labels which share the apostrophe.

// chr001 the plain ones
const   LETTER:char='a' ;const DIGIT : char = '7';const SPACE:char=' ';
const QUOTE : char = '\'' ; /* chr002 the escaped apostrophe */
const DOUBLE_QUOTE:char='"';const ESCAPED_DOUBLE_QUOTE:char='\"';
const BACKSLASH:char='\\';
const NEWLINE:char='\n';const RETURN:char='\r';const TAB:char='\t';const NUL:char='\0';
// chr003 hex and unicode escapes
const HEX_LOW:char='\x00';const HEX_HIGH : char ='\x7F' ;const HEX_LOWER_CASE:char='\x7f';
const UNI_SHORT:char='\u{0}';const UNI_LONG:char='\u{10FFFF}';const UNI_UNDERSCORES : char = '\u{1_F6_00}';const UNI_PADDED:char='\u{000041}';
const NON_ASCII : [ char ; 6 ] = [ 'é','ß' , '你','🎉', 'ﬁ' ,'Ω' , ] ; /* chr004 literal unicode scalar values */
const COMMENT_LIKE:[char;2]=['/','*'];
// chr005 byte chars
const B_LETTER:u8=b'a';const B_QUOTE:u8=b'\'';const B_BACKSLASH : u8 = b'\\' ;const B_HEX:u8=b'\xff';const B_NUL:u8=b'\0';const B_NEWLINE:u8=b'\n';
const B_DOUBLE_QUOTE:u8=b'"';const B_SPACE:u8=b' ';

fn lifetimes_next_to_chars<'a,'b:'a,'static_like>(x:&'a str,y:&'b char)->&'a str{
    // chr006 a lifetime and a char on the same line
    let c:&'a char=&'a';
    let d : & 'static char = & 'b' ;
    let e=if *y=='a'{'b'}else{'c'};
    let f:Cow<'a,str>=Cow::Borrowed(x) ; /* chr007 lifetime in a generic argument */
    let g=['a','b','\'','\\'];
    x
}

fn labels_next_to_chars()->char{
    // chr008 labels are written like lifetimes
    'outer:loop{ 'inner : for c in ['x','y','z']{ if c=='y'{continue 'outer;} if c=='z'{ break 'outer ; } } }
    let v = 'block:{ if cond(){break 'block 'a';} /* chr009 a break with a label and a char value */ 'b' };
    'a : while let Some('a'..='z')=next(){ break 'a; }
    let r#loop = 'r#lifetime_like: loop { break 'r#lifetime_like 'r' ; } ;
    v
}

fn char_patterns(c:char)->u32{
    match c{ 'a'=>1, // chr010 a single char pattern
        'b'|'c' | 'd'=>2,
        'e'..='h' => 3 ,
        '\0'..='\x1f'|'\x7f' => 4, /* chr011 the control characters */
        '\u{80}'..='\u{10FFFF}' if c.is_alphabetic( ) => 5 ,
        '0'..='9'|'A'..='F'|'a'..='f'|'_'|'-'|'+'|'.'|','|';'|':'|'!'|'?'|'#'|'@'|'$'|'%'|'^'|'&'|'*'|'('|')'|'['|']'|'{'|'}'=>6,
        // chr012 braces and parentheses as chars must not confuse anything
        '{' | '}'|'('|')' => 7,
        '/' => 8 ,
        _=>0 }
}

fn byte_patterns(b:u8)->bool{
    match b { b'a'..=b'z' | b'A'..=b'Z'=>true , b'0'..=b'9' if allow_digits=>true,
        /* chr013 before an or pattern */ b'_' | b'-' => true,
        b'\\'|b'\''|b'"' => false, _ => false }
}

fn chars_in_expressions(){
    let n = 'a' as u32+'\u{1F600}' as u32 - b'0' as u32 ;
    let cmp='a'<'b'&&'\n'!='\r'||b'x'>=b'w';
    // chr014 ranges of chars
    let r=('a'..'z',  'a'..='z' , ..'m',..='m','n'..);
    let s = ( 'a' ..= 'z' ) . chain ( 'A'..='Z' ) . chain('0'..='9').collect::<String>();
    let t = "split,this".split(',').map(|p|p.trim_matches(|c:char|c=='"'||c=='\'')).collect::<Vec<_>>( ) ; /* chr015 quote chars in a closure */
    let methods = 'ß'.to_uppercase().next().unwrap_or('\0').is_ascii_hexdigit() ;
    let nested=((('x'))) ;
    let neg=-('a' as i32) ; let not = !( b'a' ) ;
    let arr_of_arr=[['a','b'],['c','d',],[ 'e' ,'f' ]];
    call('a',/* chr016 between arguments */'b' , // chr017 at the end of an argument line
        'c');
}

fn long_lists_of_chars(){
    let vowels_and_more = ['a','e','i','o','u','y','A','E','I','O','U','Y','ä','ö','ü','Ä','Ö','Ü','à','á','â','ã','å','æ','è','é','ê','ë','ì','í','î','ï'];
    let escapes=['\n','\r','\t','\\','\0','\'','\"','\x00','\x7f','\u{0}','\u{7f}','\u{80}','\u{ff}','\u{100}','\u{ffff}','\u{10000}','\u{10ffff}'];
    // chr018 a byte array written as byte chars
    let bytes : [u8;20]=[b'H',b'e',b'l',b'l',b'o',b',',b' ',b'w',b'o',b'r',b'l',b'd',b'!',b'\n',b'\0',b'\xff',b'\'',b'"',b'\\',b'/'];
    let s=['a'];let t=[b'b',];let   u  =  ( 'c' , ) ;
}

struct WithLifetime<'a>{ c:&'a char, // chr019 field with a lifetime
    /* chr020 before a field */ d:char }
enum E{ A='a' as isize , // chr021 a discriminant made from a char
    B = b'b' as isize }
impl<'a> WithLifetime<'a>{ const DEFAULT:char='\u{FFFD}'; fn get(&'a self)->&'a char{self.c} }

fn in_macros(){
    println!("{}{}{:?}",'a',   '\n' ,b'c');
    let v=vec!['a';3];let w = vec! [ '\'' , '"','\\' ] ;
    assert!(matches!(c,'a'..='z'|'_'),"a char {} with a label-like 'word in the message",c);
}
