// rustfmt-edition: 2021
// Extra corpus (written for the checks, not taken from rustfmt): labelled loop, while, for and block expressions, break with values of every shape, continue with labels, nested labels and loops in expression position.

// lbl001 short ones
fn short()->u8{'a:loop{break 'a 1}}

fn labelled_loops(limit: usize) {
    'outer:loop{'inner:loop{break 'outer;}}
    'a : loop { break 'a } // lbl002 space before the colon of a label
    'b:while cond(){continue 'b}
    'c:for i in 0..limit{if i%2==0{continue 'c;}else{break 'c}}
    /* lbl003 a labelled block */
    'block:{if limit==0{break 'block;}work();}
    'very_long_label_name_for_the_outermost_loop_of_the_function: loop { 'second_level_label_that_is_also_long: for element in collection_with_a_long_name.iter() { if element.is_done() { break 'very_long_label_name_for_the_outermost_loop_of_the_function } else { continue 'second_level_label_that_is_also_long } } }
    'r#loop: loop { break 'r#loop } // lbl004 raw label
    '_underscore: loop { break '_underscore; }
    'static_like: while let Some(x) = next() { if x { break 'static_like } }
    loop{}
    loop { }
    loop { /* lbl005 only a comment in the body */ }
    while false{}
    for _ in 0..0{}
    #[allow(unused_labels)] 'attributed: loop { break }
    #[cfg(debug_assertions)]
    'l: for x in xs { check(x) }
}

// lbl006 break with a value
fn break_values(items: &[Item]) -> Result<u32, Error> {
    let a=loop{break 1};
    let b = loop { break; };
    let c = 'l: loop { break 'l 2; };
    let d = 'outer: loop { loop { break 'outer 3 } }; /* lbl007 value carried through two loops */
    let e = loop { break (1,2) };
    let f = loop { break [1,2,3] };
    let g = loop { break Point{x:1,y:2} };
    let h = loop { break if items.is_empty() { 0 } else { 1 } };
    // lbl008 break with a long expression that must wrap
    let i = loop { break items.iter().filter(|item| item.is_relevant_for_the_computation()).map(|item| item.weight * item.multiplier).sum::<u32>() + constant_offset_with_a_long_name; };
    let j = loop { break match next() { Some(v) => v, None => continue, } };
    let k = loop { break |x:u8| x+1 };
    let l = loop { break 'x' };
    let m = loop { break -1 };
    let n = loop { break &mut *ptr };
    let o = loop { break loop { break loop { break 4 } } }; /* lbl009 breaks nested in break values */
    let p = loop { break { 5 } };
    let q = loop { break (break 6) };
    let r = loop { break return Err(Error::Early) };
    let s = loop { break some_call(first_argument_to_the_call, second_argument_to_the_call, third_argument_to_the_call, 4)?; };
    let t = loop { break async { 7 }.await };
    let u = loop { break unsafe { read(p) } };
    let v = loop { break "a string that is fairly long but still fits" };
    let w = loop { break 1..=2 };
    let x = loop { break .. };
    Ok(a+c+d)
}

// lbl010 labelled blocks with values
fn block_values(input: &str) -> Option<u8> {
    let parsed='parse:{let Some(first)=input.chars().next() else{break 'parse None};if !first.is_ascii_digit(){break 'parse None;}Some(first as u8-b'0')};
    let r = 'a: { if x { break 'a 1 } if y { break 'a 2; } 3 }; // lbl011 three exits from one block
    let nested = 'outer: { let inner = 'inner: { if p { break 'outer 10 } if q { break 'inner 20 } 30 }; inner + 1 };
    let unit: () = 'u: { break 'u; };
    let in_call = compute('arg: { if z { break 'arg 0 } 1 }, 'other: { break 'other 2 }); /* lbl012 labelled blocks as call arguments */
    let in_match = match 'm: { break 'm input.len() } { 0 => 'z: { break 'z None }, n => Some(n as u8) };
    let closure = || 'c: { if input.is_empty() { break 'c 0 } input.len() };
    let unsafe_labelled = 'ul: { unsafe { if check() { break 'ul 1 } } 2 };
    parsed
}

fn loops_in_expression_position(v: &mut Vec<u8>) -> usize {
    let total = 'sum: loop { let mut acc = 0; for (i, x) in v.iter().enumerate() { if *x == 0 { break 'sum i } acc += *x as usize; } break acc; };
    let found = 'search: { for row in grid { for cell in row { if cell.matches() { break 'search Some(cell) } } } None }; // lbl013 search idiom
    call_with_loop(loop { break 1 }, while x { }, for _ in y { });
    let arr = [loop { break 1 }, 'l: loop { break 'l 2 }];
    let t = (loop { break 1 }, 'b: { 2 });
    let s = S { field: 'f: loop { break 'f 1 }, other: 'g: { break 'g 2 } }; /* lbl014 labelled expressions as field values */
    return 'ret: loop { break 'ret total };
}

// lbl015 continue and break mixed with other jumps in odd spots
fn odd_spots(it: &mut I) {
    'a: loop { 'b: loop { 'c: loop { 'd: loop { match it.next() { Some(0) => break 'a, Some(1) => break 'b, Some(2) => continue 'c, Some(3) => continue 'd, Some(_) => break, None => return } } } } }
    'l: loop { let x = if c { break 'l } else { continue 'l }; }
    'l: loop { let _ = c && break 'l; let _ = d || continue 'l; } /* lbl016 jumps as operands */
    'l: loop { foo(break 'l); bar(continue 'l, 1); }
    'l: loop { let _ = (break 'l 1) + 2; let _ = [break 'l 3; 4]; }
    'l: while 'm: loop { break 'm true } { break 'l }
    'l: for i in 'n: { break 'n 0..3 } { continue 'l }
}
