// rustfmt-edition: 2021
// Extra corpus (written for the checks, not taken from rustfmt): macro calls in item position (modules, impls, traits, extern blocks) and in type position, with paren, bracket and brace delimiters.

// mip001 a plain brace call at top level
thread_local!{static   FOO:RefCell<u32>=RefCell::new(1);   static BAR : Cell<   Vec<u8>> = Cell::new(vec![]) ;}

/* mip002 paren call at top level needs a semicolon */
declare_id!(   "Fg6PaFpoGXkYsidMpWTK6W2BeZ7FEfcYkg476zPFsLnS"   )  ;

// mip003 bracket call at top level
implement_everything![  u8 ,u16,   u32 ,u64,u128,usize   ]  ;

bitflags!{
    /* mip004 block comment before the struct inside the call */
    pub struct   Flags:u32{const A=0b0001;const B   = 0b0010 ; const  ABC=Self::A.bits|Self::B.bits|Self::C.bits;}
}

// mip005 a path-qualified macro name
::std::compile_error ! ("this is a very long message that certainly will not fit in the forty columns nor, if it goes on like this for a while, in one hundred") ;

crate :: macros :: make_items !{ fn a(){} fn b ( ) { } }

/* mip006 an empty call of every delimiter */
empty!();
empty![];
empty!{}

#[cfg(test)] #[allow(unused)] attributed_call!( x,y ,z );

// mip007 a doc comment on a macro call item
/// Documentation of the generated thing.
#[doc(hidden)]
generate!{   Thing   }

pub mod inner_module_with_calls{
    // mip008 inside a module
    make_struct!(pub struct   Inner{a:u8,b:u16}) ;
    /* mip009 between two calls in a module */
    make_enum![enum E{A,B,C}];
    lazy_static!{ static ref  NAME:String="Ünïcödé and 日本語".to_string(); pub static ref   OTHER : HashMap<u32 , &'static str>={let mut m=HashMap::new();m.insert(0,"zero");m}; }
}

impl   SomeType{
    // mip010 macro call as an associated item
    make_method!(   get_value , u32 );
    make_const!{ CONST_NAME:u8=3 }
    /* mip011 bracket form inside an impl */
    make_many![a,b,c,];
    fn ordinary(&self){}
}

trait   SomeTrait{
    required_methods!( one,two ) ;
    // mip012 before a brace call in a trait
    provided_methods!{ fn three(&self){} }
    type Assoc;
}

impl SomeTrait for r#struct{
    forward_all!{  SomeTrait => self.inner  }
    /* mip013 after a brace call in a trait impl */
    type Assoc=();
}

extern "C"{
    // mip014 macro call inside an extern block
    declare_foreign!(fn   puts(s:*const c_char)->c_int);
    declare_foreign_static!{ static ENVIRON:*const *const c_char; }
}

// mip015 a call whose arguments are not valid Rust syntax
weird_dsl!{ SELECT * FROM users WHERE id = $1 AND name LIKE '%'   ; }

grammar![ expr := term ( ( '+' | '-' ) term ) * ; term:=factor(('*'|'/')factor)* ; ];

/* mip016 very long name and very long argument list */
a_macro_with_an_extraordinarily_long_name_that_takes_up_most_of_the_line_on_its_own_already!(first_argument_with_a_long_name, second_argument_with_a_long_name, third);

short!(a);

// mip017 key value style arguments
config!(name="value",other   =   2,third= [1,2,3],fourth={a:1});

impl_trait_for_tuples!{ (A) (A,B) (A,B,C) (A,B,C,D) (A,B,C,D,E) (A,B,C,D,E,F) (A,B,C,D,E,F,G) (A,B,C,D,E,F,G,H) (A,B,C,D,E,F,G,H,I) }

/* mip018 item macro with visibility like tokens and a trailing arrow */
pub_items!(pub(crate) fn f()->u8 ; pub(in crate::a) fn g()  ->   u16;);

// mip019 a call followed immediately by another on the same line
one!(); two!{} three![];


/* mip020 the last item of the file */
fn main(){ }

// mip021 type position in a type alias
type   A=make_type!(u8,u16) ;
type B = make_type![ u8 ; 4 ];
type C<T>=make_type!{ Vec < T > };

/* mip022 type position in statics and consts */
static S:ty_of!(1)=1;
const K : ty_of ! [ 2 ]=2;

struct  Fields{
    a:field_ty!(u8), // mip023 trailing after a field with a macro type
    pub b:field_ty![u16],
    /* mip024 between fields */
    pub(crate) c:Vec<field_ty!{u32}>,
    d:Option<Box<dyn Fn(arg_ty!(a))->ret_ty!(b)>>,
    e:a_very_long_macro_name_in_type_position!(first_type_argument_with_a_long_name,second_type_argument_with_a_long_name),
}

struct Tuple(elem!(0),pub elem![1],elem!{2});

enum  Variants{
    One(v!(1)), // mip025 tuple variant with macro type
    Two{x:v![2] ,y:v!{3}},
    /* mip026 before a discriminant given by a macro */
    Three=disc!(3),
}

// mip027 in function signatures: parameters, return type, generics, where clauses
fn signature<T:Clone,const N:usize>(a:p!(u8),b:&p![u16],c:&mut p!{u32},d:[p!(u64);N],)->r!(T) where T:Into<w!(u8)>,w!(u16):From<T>{ todo!() }

fn pointers_and_refs(a:*const t!(x),b:*mut t![y],c:&'static t!{z},d:(t!(1),t!(2),),e:fn(t!(3))->t!(4),f:impl Fn(t!(5))->t!(6),g:&dyn Tr<t!(7),Out=t!(8)>){}

impl   Display for   ty!(Wrapper){
    // mip028 associated type given by a macro
    type Out=assoc!(u8);
    const V:cv!(u8)=0;
    fn f(self:slf!(Self))->Self::Out{ 0 }
}

impl<T> Generic<g!(T)> for Vec<g![T]>{ }

fn in_expressions(){
    // mip029 macro types in casts, turbofish, let annotations, closures and paths
    let a=1 as c!(u8);
    let b=collect::<c![Vec<u8>]>();
    let c:l!(u8)=3 ; let d : l ! { u16 } = 4;
    let e=|x:cl!(u8)|->cl!(u16){x as cl!(u16)};
    let f=<q!(T) as Trait>::method();
    let g=size_of::<a_macro_name_that_is_long_enough!(with_an_argument_that_is_long_too,and_another_one_that_is_long_as_well)>();
    /* mip030 nested macro types */
    let h:outer!(inner!(innermost![u8])) = make();
}
