// rustfmt-edition: 2021
// Extra corpus (written for the checks, not taken from rustfmt): the well known macros of std and of popular crates: vec, format family, assert family, matches, cfg_if, lazy_static, thread_local, select, json.

fn vectors(){
    // wkm001 vec with lists, with repeat forms and with trailing commas
    let a=vec![];
    let b=vec![1];
    let c=vec![1,2,3,];
    let d=vec![0u8;1024];
    let e=vec![ vec![0.0f64;columns];rows ];
    let f:Vec<Vec<&str>> =vec![vec!["a","b"],vec![],vec!["a_rather_long_string_literal_number_one","a_rather_long_string_literal_number_two"]];
    /* wkm002 vec with paren and brace delimiters */
    let g=vec!(1,2,3);
    let h=vec!{1,2,3};
    let i=vec![some_function_with_a_long_name(first_argument,second_argument);another_function_giving_the_length(third_argument)];
    let j=vec![Struct{field_one:1,field_two:2},Struct{field_one:3,field_two:4},Struct{field_one:5,..Default::default()}];
}

fn formatting(w:&mut W)->fmt::Result{
    // wkm003 print family with no, one and many arguments
    println!();
    println!("");
    print!("{}",1);
    eprintln!("{a} {b:?} {c:>10.3} {0} {}",x,a=1,b="two",c=3.0,);
    eprint!("a string that is by itself long enough to prevent everything from being put on one single line {}",value);
    /* wkm004 format strings with escapes, unicode, raw and byte forms */
    let s=format!("{{}} \" \\ \n \t \u{1F600} ünï 日本",);
    let r=format!(r#"raw "quoted" {}"#,1);
    let t=format!("{:#?}{:08.3}{:+e}{:#x}{:#010b}{:^width$.prec$}",a,b,c,d,e,f,width=10,prec=2);
    let u=format!("{x}{y}",x=format!("{}",1),y=format_args!("{}",2));
    // wkm005 write family with a trailing try
    write!(w,"{}",1)?;
    writeln!(w)?;
    writeln!(w,"{}: {}",some_key_with_a_long_name,some_value_with_a_long_name.to_string().trim())?;
    write!(&mut *w.lock().unwrap(),"{:?}",(1,2),)?;
    /* wkm006 panics and friends */
    if false{ panic!() }
    if false{ panic!("message {}",1) }
    if false{ unreachable!("never {}","here") }
    if false{ unimplemented!(); todo!("later"); }
    let loc=(file!(),line!(),column!(),module_path!());
    let inc=include_str!("some/path.txt").len()+include_bytes!("other.bin").len();
    let env=(env!("PATH"),option_env!("HOME"),concat!("a",1,2.0,true),stringify!(a + b * c));
    let dbg=dbg!(1+2,"three",);
    Ok(())
}

fn assertions(){
    // wkm007 assert family with and without messages
    assert!(x);
    assert!(x,"message");
    assert!(a<b&&c>d||e==f,"a long message that explains {} and also {} in some detail, more than fits",first,second);
    assert_eq!(a,b);
    assert_eq!(a,b,);
    assert_ne!(a,b,"values {:?} and {:?}",a,b);
    debug_assert!(x);debug_assert_eq!(a,b);debug_assert_ne!(a,b);
    assert_eq!(some_function_with_a_long_name(first_argument),Some(ExpectedValue{field_one:1,field_two:"two".to_string()}),"context: {}",context);
    /* wkm008 matches and assert matches */
    assert!(matches!(value,Some(1..=9)));
    assert!(!matches!(value,None|Some(0)),"was {:?}",value);
    let m=matches!(c,'a'..='z'|'A'..='Z'|'_');
    assert_matches!(result,Ok(Value::Number(n)) if n>0);
    // wkm009 compile time ones
    const _:()=assert!(size_of::<u8>()==1);
    let c=cfg!(all(unix,not(target_os="macos"),any(feature="a",feature="b")));
}

/* wkm010 cfg_if with several branches and nesting */
cfg_if::cfg_if!{
    if #[cfg(unix)]{ fn platform()->&'static str{"unix"} }
    else if #[cfg(all(windows,target_pointer_width="64"))]{ fn platform()->&'static str{"win64"} }
    else{ cfg_if!{ if #[cfg(feature="fallback")]{ fn platform()->&'static str{"fallback"} }else{ compile_error!("unsupported"); } } }
}

// wkm011 lazy_static with several statics, visibilities, attributes
lazy_static!{
    static ref A:u8=1;
    pub static ref REGEX:Regex=Regex::new(r"^\d{4}-\d{2}-\d{2}$").unwrap();
    pub(crate) static ref LONG_ONE:Mutex<HashMap<String,Vec<u8>>> =Mutex::new(HashMap::with_capacity_and_hasher(1024,Default::default()));
}
lazy_static!{
    #[derive(Debug)] pub(crate) static ref TABLE:Mutex<HashMap<String,Vec<u8>>> =Mutex::new(HashMap::new());
}

lazy_static::lazy_static!{ static ref SINGLE:Vec<u8> =vec![1,2,3]; }

/* wkm012 thread_local with const initialisers */
thread_local!{ pub static COUNTER:Cell<u32> =const{Cell::new(0)}; static BUF:RefCell<Vec<u8>> =RefCell::new(Vec::with_capacity(128)); }

async fn popular_crates(){
    // wkm013 tokio select and join
    tokio::select!{ v=rx.recv()=>{ handle(v); } _=tokio::time::sleep(dur)=>{ timeout(); } else=>{ done(); } }
    let (a,b)=tokio::join!(first(),second());
    let (c,d)=futures::try_join!(third(),fourth())?;
    /* wkm014 serde json and log and anyhow */
    let j=json!({"name":"value","list":[1,2,3],"nested":{"a":null,"b":true}});
    info!(target:"app","started {} workers",n);
    error!("failed: {err:#}");
    tracing::debug!(user.id=id,%name,?value,"event happened");
    ensure!(n>0,"n must be positive, got {}",n);
    bail!("giving up after {} attempts",attempts);
    let p=pin!(fut);
    let q=quote!{ impl #name for #ty{ fn f(&self)->u8{ #(#values),* } } };
}
