// rustfmt-edition: 2021
// Extra corpus (written for the checks, not taken from rustfmt): bare function pointer types (fn, unsafe fn, extern fn, variadic, named parameters, for<'a> binders, nested).

// fnp001 the short ones
type F0=fn();
type F1 = fn ( ) -> ( ) ;
type F2=fn(u8)->u8;
type F3=fn(u8,)->u8;
type F4 = fn ( u8 , u16 , ) -> ! ;   // fnp002 never as a return type
type F5=unsafe fn();
type F6=extern "C" fn();
type F7 = unsafe   extern   "C"   fn ( ) ;
type F8=extern "Rust" fn(u8);
/* fnp003 named parameters in pointer types */
type N1=fn(a:u8,b:u16)->u32;
type N2 = fn ( _ : u8 , _:u16 ) ;
type N3=fn(r#type:u8,größe:u16);
type N4=unsafe extern "C" fn(fmt:*const u8,...)->i32;
type N5 = unsafe extern "C" fn ( * const u8 , ... ) ;
type N7=extern "C-unwind" fn(u8);
type N8=unsafe extern "rust-call" fn((u8,),);
type N6=extern "system" fn(handle:*mut c_void,message:u32,w_param:usize,l_param:isize)->isize;

// fnp004 higher ranked binders on pointers
type H1=for<'a>fn(&'a u8)->&'a u8;
type H2 = for < 'a , 'b > fn ( & 'a u8 , & 'b u8 ) -> & 'a u8 ;
type H3=for<'a,>unsafe extern "C" fn(&'a u8);
type H4=for<'a,'b,>fn();
type H5<'x>=for<'a>fn(&'a u8,&'x u8,for<'b>fn(&'a u8,&'b u8)->&'b u8)->fn(&'x u8)->&'x u8;

/* fnp005 pointers returning pointers */
type R1=fn()->fn()->fn()->fn()->u8;
type R2 = fn ( fn ( fn ( fn ( ) ) ) ) ;
type R3=fn(fn(u8)->u8,fn(u16)->u16)->fn(fn(u32)->u32)->u64;
type R4=Option<unsafe extern "C" fn(*mut c_void)->*mut c_void>;
type R5=[fn(u8)->u8;4];
type R6=&'static[(&'static str,fn(&mut State,&[&str])->Result<(),Box<dyn Error+Send+Sync>>)];
type R7=*const fn();
type R8=&'static mut(fn()->u8);
type R9=fn()->(u8,);
type R10=fn((u8,),((),),)->((),);

// fnp006 one that is far too long for a line
type VeryLongFunctionPointerAlias<'lifetime> = for<'other> unsafe extern "C" fn(first_argument_name: &'lifetime mut SomeVeryLongTypeNameNumberOne, second_argument_name: &'other SomeVeryLongTypeNameNumberTwo<'lifetime, 'other>, ...) -> Result<SomeVeryLongTypeNameNumberThree<'lifetime>, SomeVeryLongErrorTypeName>;

struct Table<'a>{
    init:fn(), // fnp007 trailing remark on a field
    /* fnp008 before the callback */
    callback : Option < for<'r> fn ( & 'r mut Context<'a> , & 'r [ u8 ] ) -> Result < usize , Error > > ,
    drop_in_place:unsafe fn(*mut()),
    compare : extern "C" fn ( * const c_void , *const c_void ) -> c_int , // fnp009 the comparator
    handlers:[Option<fn(&mut Self)>;16],
    nested:fn(fn(fn(fn(fn(fn(fn(fn(fn(u8)->u8)->u8)->u8)->u8)->u8)->u8)->u8)->u8)->u8,
}

enum E{
    // fnp010 variants that carry pointers
    A(fn()),
    B(fn(u8)->u8,unsafe fn(u8)->u8,),
    C{f:for<'a>fn(&'a str)->&'a str}, /* fnp011 end of the variant */
}

fn takes(f:fn(u8)->u8,/* fnp012 between the two */g:unsafe extern "C" fn(u8,...)->u8)->fn(u8)->u8{f}

unsafe extern "C" fn variadic(a:u8,mut args:...)->fn(...){loop{}}
fn takes_long(first_function_parameter: for<'a, 'b> fn(&'a SomeVeryLongTypeNameNumberOne, &'b SomeVeryLongTypeNameNumberTwo) -> &'a u8, second_function_parameter: fn(fn(fn(u8) -> u8) -> u8) -> u8) -> for<'a> fn(&'a u8) -> &'a u8 { loop{} }

fn body(){
    let a:fn()=body;
    let b : fn ( u8 ) -> u8 = | x | x ; // fnp013 a closure coerced
    let c=body as fn();
    /* fnp014 transmute with pointer types */
    let d=unsafe{core::mem::transmute::<*const(),unsafe extern "C" fn(i32,*const*const u8)->i32>(p)};
    let e:Vec<fn(&str)->Option<Box<dyn Fn(u8)->u8>>>=vec![];
    let f=<fn(u8)->u8 as Clone>::clone(&b);
    let g:for<'a>fn(&'a u8)->&'a u8=|x|x;
    // fnp015 a call through a parenthesised pointer
    let h=(table.callback)(ctx,/* fnp016 an argument remark */&[]);
    let i=size_of::<fn(u8,u16,u32,u64,u128,i8,i16,i32,i64,i128,f32,f64,bool,char,usize,isize,())->!>();
    let j:fn(u8,u16,)=k;
    let l=x as usize as*const fn(u8)->u8 as usize;
}

impl Tr for fn(){}
impl<A,R>Tr for fn(A)->R{}
// fnp017 impls for more pointer shapes
impl<A,B,R>Tr for unsafe extern "C" fn(A,B,...)->R where for<'a>fn(&'a A)->&'a R:Copy{}
impl<'a>Tr for for<'b>fn(&'a u8,&'b u8){}

static HOOK:fn()=||();
static mut   HOOKS : [ Option<unsafe fn()> ; 2 ] = [ None , None ] ; /* fnp018 last remark */
