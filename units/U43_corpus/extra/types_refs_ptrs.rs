// rustfmt-edition: 2021
// Extra corpus (written for the checks, not taken from rustfmt): reference types and raw pointer types, with and without lifetimes and mut, nested and parenthesised.

// rfp001 plain references in type aliases
type   A1<'a>=&'a   u8;
type A2<'a>   = &  'a mut u8 ;
type A3 =&u8;   // rfp002 trailing remark on an alias
type A4=& mut u8;
type A5<'a,'b>=&'a&'b u8;
type A6<'a, 'b> = &'a mut&'b mut&'a&'b   mut u8;
/* rfp003 block remark before the pointers */
type P1 = * const u8;
type P2=*mut   u8;
type P3 = *const*mut*const * mut u8;
type P4<'a> = *const&'a*mut&'a mut u8;
type P5 = *const ( ) ;
type P6 = * mut ( dyn   Send+Sync ) ;
type P7<'a> = &'a(dyn Send+'a);
type P8<'a> = &'a mut(dyn FnMut(&'a u8)->&'a u8+Send+'a);
type P9 = *const [u8];
type P10=*mut[*const[&'static str;3]];

// rfp004 a very long alias that cannot stay on one line
type VeryLongReferenceAliasNameForTheChecks<'first_lifetime, 'second_lifetime> = &'first_lifetime mut &'second_lifetime mut *const *mut &'first_lifetime SomeVeryLongTypeNameNumberOne<'second_lifetime, SomeOtherParameter>;

struct Holder<'a,'b:'a,T:'a+?Sized>{
    r:&'a T, // rfp005 shared field
    /* rfp006 before the mutable one */
    m : &'b   mut T,
    pp:*const*const T,
    pm : * mut&'a mut&'b T, /* rfp007 end of line block */
    rr: &'a&'a&'a&'a&'a&'a&'a&'a&'a&'a&'a&'a&'a&'a&'a&'a T,
    // rfp008 raw identifier and unicode names below
    r#type:&'a r#struct,
    größe : &'b mut Größe<'a>,
    anon:&'_ u8,
    st: &'static   mut [&'static str],
}

struct HolderOfOneLongField<'a,T>{
    // rfp021 a field type that cannot be broken
    rr: &'a&'a&'a&'a&'a&'a&'a&'a&'a&'a&'a&'a&'a&'a&'a&'a&'a&'a&'a&'a&'a&'a&'a&'a&'a&'a&'a T,
}

fn refs<'a,'b>(x:&'a u8,y:&'b mut u8,/* rfp009 between parameters */z:*const u8,w:*mut u8)->&'a u8{x}

fn long_refs<'long_lifetime_a, 'long_lifetime_b>(first_parameter: &'long_lifetime_a mut &'long_lifetime_b u8, // rfp010 after the first
    second_parameter: *const *mut &'long_lifetime_a [u8], third_parameter: &'long_lifetime_b mut dyn Iterator<Item = &'long_lifetime_a u8>) -> &'long_lifetime_a mut &'long_lifetime_b u8 { loop{} }

fn self_refs(){
    struct S;
    impl S{
        fn a(&self){}
        fn b(& mut self){}
        fn c<'a>(&'a self)->&'a S{self}
        // rfp011 between methods
        fn d<'a>(& 'a   mut self){}
        fn e(self:&Self){}
        fn f(self : & mut Self){}
        fn g<'a>(self:&'a   mut Self,/* rfp012 after self */other:&'a Self){}
        fn h(self: *const Self){}
        fn i(mut self:Box<&mut Self>){}
    }
}

fn body<'a>(){
    let a:&u8=&1;
    let b : & mut u8 = & mut 2 ; // rfp013 a let with a mutable reference
    let c:*const u8=a as*const u8;
    /* rfp014 block between statements */
    let d=b as * mut u8 as*const u8 as * mut u8;
    let e:&&&&u8=&&&&0;
    let f:& & mut & u8=& & mut & 0;
    let g = &raw const   x;
    let h=&raw   mut x;
    let i:&'a(dyn Fn()+'a)=&||();
    let j : * const dyn   Fn ( ) = i;
    let k=core::ptr::null::<*const*mut&'static u8>();
    // rfp015 a cast chain that is too long for one line
    let l = some_long_pointer_expression as *const SomeVeryLongTypeNameNumberOne as *mut SomeVeryLongTypeNameNumberTwo as *const u8 as usize;
    let m:Option<&'a mut(dyn Iterator<Item=&'a mut*const u8>+'a)>=None;
    let n=|x:&u8,y:&mut*const u8|->*const u8{x};
    let (o,p):(&u8,*const&u8)=(&0,&&0); // rfp016 tuple of references
    let q : [ & 'a str ; 2 ] = [ "é" , "日本語" ] ;
}

extern "C"{
    fn ext(a:*const u8,b:*mut*mut u8,/* rfp017 in a foreign fn */...)->*const c_void;
    // rfp018 a foreign static
    static   mut PTR:*mut*const u8;
}

impl<'a,T:?Sized>Tr for&'a T{}
impl<'a , T : ? Sized> Tr for & 'a   mut T { }
impl<T:?Sized>Tr for*const T{}
/* rfp019 before the last impl */
impl<T:?Sized>Tr for * mut T where*mut T:Copy,&'static T:Send,for<'x>&'x mut T:Tr{}

static S1:&str="x";
static   S2 : & 'static [ & 'static str ]=&["a","b"]; // rfp020 last remark
const C1:*const u8=0 as*const u8;
