// rustfmt-edition: 2021
// Extra corpus (written for the checks, not taken from rustfmt): struct literals (shorthand, base expression, nested, generic paths), tuple literals, array literals and repeat expressions.

// lit001 struct literals, small ones
fn small_structs(){
let a=S{};let b = S { } ;let c=S{x:1};let d = S { x : 1 , } ;let e=S{x,y};let f = S{x,y:2,z,}; // lit002 shorthand mixed with explicit fields
let g = S{..d} ; let h = S{x:1,..d} ; let i = S{x,..Default::default()} ; let j = S { x : 1 , .. } ; /* lit003 rest without a base expression */
let k = S{0:a,1:b} ; let l = Tuple{0:a} ; let m = S{r#type:1,r#fn} ; let n = S{größe:1,длина} ; // lit004 numeric, raw and unicode field names
let o = a::b::S{x:1} ; let p = S::<u8>{x:1} ; let q = <S as T>::A{x:1} ; let r = Self{x:1} ; let s = Self::Variant{x:1} ; let t = crate::S{x} ; let u = self::super::S{} ;
let v = S{x:{1}} ; let w = S{x:if c {1} else {2},y:match z {_=>3},w:||4,v:loop{},} ; let y = (S{x:1}).x ; let z = S{x:1}.x ;
}

// lit005 struct literals that must break
fn large_structs(){
let a = SomeStructureName{first_field_name:first_field_value,second_field_name:second_field_value,third_field_name:third_field_value,fourth:4};
let b = SomeStructureName{first_field_name,second_field_name,third_field_name,fourth_field_name,fifth_field_name,sixth_field_name,seventh,eighth_name};
let c = Outer{inner:Inner{innermost:Innermost{value:1,other:2},sibling:Sibling{value:some_function_with_a_long_name(argument_one,argument_two)}},flag:true,..Outer::default()};
/* lit006 fields with comments and attributes */
let d = S{
// lit007 comment before the first field
x:1, // lit008 trailing comment after a field
/* lit009 block comment before a field */ y:2,
#[cfg(feature="z")] z:3,
#[cfg(not(feature="z"))] #[allow(unused)] w,
// lit010 comment before the base
..base};
let e = S{x:some_long_function_name_for_the_value_of_x(argument_one,argument_two).method_on_result().another_method(),y:short};
let f = some_module::another_module::yet_another_module::SomeStructureName::<WithGenericArgument,AndAnother>{field:value,..some_module::base_value()};
let g = S{a:1,b:2,c:3,d:4,e:5,f:6,g:7,h:8,i:9,j:10,k:11,l:12,m:13,n:14,o:15,p:16,q:17,r:18,s:19,t:20,u:21,v:22,w:23,x:24,y:25,z:26,aa:27,ab:28};
f(S{x:1,y:2},T{z:3}) ; x.y(S{x:1}).z() ; vec![S{x:1},S{x:2}] ; return S{x:1} ; // lit011 struct literals in argument position
}

// lit012 struct literals in places that need parentheses
fn struct_in_condition(){
if (S{x:1}).x {} if x==(S{x:1}) {} while (S{x}).y() {} match (S{x:1}) {S{x}=>x} for _ in (S{x:1}) {} /* lit013 parentheses must survive */
if let S{x:1}=(S{x:1}) {} match [S{x:1}] {_=>{}} if f(S{x:1}) {} if [S{x:1}].len()>0 {} if {S{x:1}}.x {} // lit014 braces allowed inside delimiters
}

// lit015 tuple literals
fn tuples(){
let a=();let b = ( ) ;let c=(1,);let d = ( 1 , ) ;let e=(1,2);let f = (1,2,) ;let g=((1,),(2,),((3,),)); // lit016 single element and nested tuples
let h = (1) ; let i = ((1)) ; let j = ((1),) ; let k = (((),),) ; let l = ((),()) ; /* lit017 parenthesised values are not tuples */
let m = (a+b,c*d,-e,!f,&g,*h,i as u8,j..k,l?,m.await,) ; let n = (|x|x,|y|y) ; let o = (if a {1} else {2},match b {_=>3},{4},) ;
let p = (first_element_of_the_tuple_with_a_long_name,second_element_of_the_tuple_with_a_long_name,third_element_of_the_tuple_long);
let q = ("a string element that is rather long to force breaking","another string element that is rather long","third",);
let r = (
1, // lit018 trailing comment after a tuple element
/* lit019 block comment before a tuple element */ 2,
3 // lit020 trailing comment after the last element without a comma
);
let s = (1,2).0 ; let t = ((1,2),(3,4)).1.0 ; let u = (1,2,3,4,5,6,7,8,9,10,11,12,13,14,15,16,17,18,19,20,21,22,23,24,25,26,27,28,29,30,31,32,33,34,35,36) ;
let (v,w,) = (1,2,) ; let (x,(y,z),..) = t ; f((1,2)) ; f((1,),) ; f(((1,2),(3,4))) ; f((),()) ; // lit021 tuples as arguments
}

// lit022 array literals and repeat expressions
fn arrays(){
let a=[];let b = [ ] ;let c=[1];let d = [ 1 , ] ;let e=[1,2,3];let f = [1,2,3,] ;let g=[[1,2],[3,4]];let h=[[[1]]]; // lit023 nested arrays
let i = [0;4] ; let j = [ 0 ; 4 ] ; let k = [[0;4];4] ; let l = [[0u8;N];{M+1}] ; let m = [f();g()] ; let n = [();0] ; let o = [x;const{1+1}] ; /* lit024 repeat forms */
let p = [1,2,3,4,5,6,7,8,9,10,11,12,13,14,15,16,17,18,19,20,21,22,23,24,25,26,27,28,29,30,31,32,33,34,35,36,37,38,39,40,41,42,43,44,45,46,47,48,49,50];
let q = [0x00,0x01,0x02,0x03,0x04,0x05,0x06,0x07,0x08,0x09,0x0a,0x0b,0x0c,0x0d,0x0e,0x0f,0x10,0x11,0x12,0x13,0x14,0x15,0x16,0x17,0x18,0x19,0x1a,0x1b];
let r = ["alpha","beta","gamma","delta","epsilon","zeta","eta","theta","iota","kappa","lambda","mu","nu","xi","omicron","pi","rho","sigma","tau"];
let s = [first_element_of_the_array_with_a_long_name,second_element_of_the_array_with_a_long_name,third_element_of_the_array_long];
let t = [S{x:1,y:2},S{x:3,y:4},S{x:5,y:6}] ; let u = [(1,2),(3,4)] ; let v = [|x|x] ; let w = [if a {1} else {2}] ; let x = [a..b,c..d] ; let y = [..] ;
let z = [
1, // lit025 trailing comment after an array element
2, /* lit026 block comment after an array element */
// lit027 comment on its own line in an array
3];
let aa = [1.0,2.5e3,1e-7,0.1f32 as f64,f64::NAN,-0.0] ; let ab = [b'a',b'\n',b'\\'] ; let ac = ['a','\'','\u{e9}','é'] ; let ad = [true,false,!true] ;
let ae = &[1,2,3][..] ; let af = [1,2,3][0] ; let ag = [1,2,3].len() ; let ah = [[1,2,3][0];[4,5][1]] ; let ai = *[&1][0] ; // lit028 arrays as receivers
let [aj,ak] = [1,2] ; let [al,..] = am ; f([1,2,3]) ; f([1,2,3],) ; f(&[]) ; f(&mut[0;1024]) ; f([[0;3];3]) ; f(vec![[0;3];3]) ;
}
