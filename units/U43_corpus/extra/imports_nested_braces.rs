// rustfmt-edition: 2021
// Extra corpus (written for the checks, not taken from rustfmt): use declarations with nested brace lists, self, super, crate, leading colons and globs.

// inb001 short lists that fit in forty columns
use a::{b,c};
use   a :: { b } ;
use a::{self};
use a::{self,}; // inb015 a trailing comma after self
use a::{{b}};
use {a,b};
use {a::b};
use ::{a, b::c};
/* inb002 block comment between two short imports */
use ::a::b;
use :: a :: { b , c , } ;
use a::*;
use a::{*};
use ::a::*;
use a::{b::*,c::*};
/* inb016 bare globs */
use *;
use ::*;

// inb003 self super and crate as path heads
use self::x;
use self :: { x , y } ;
use super::x;
use super::super::x;
use super :: super :: super :: { x , y :: { z , w } } ;
use crate::x;
use crate :: { x , y :: * } ; /* inb017 spaces around every token */
use crate::{self};
use super::{self};
use self::{self as this_module_here};
use crate::{self as root};
use super::*; // inb004 trailing comment after a glob of super
use self::*; /* inb005 trailing block comment after a glob of self */
use crate::*;

// inb006 nesting three and four levels deep written on one line
use std::{collections::{hash_map::{self,Entry,HashMap},btree_map::{BTreeMap,Entry as BEntry},HashSet},io::{self,Read,Write,prelude::*},fmt::{Debug,Display}};
use a::{b::{c::{d::{e::{f}}}}};
use a::{b::{c::{d::{e::{f,g},h},i},j},k};
// inb018 braces that hold a single brace list
use a::{{{{b}}}};
use a::{{b,c},{d,e}};
use a::{{b::{c}},{d::{e,}},};

/* inb007 broken in odd places over several lines */
use
    alpha
    ::
    beta
    ::
    {
        gamma
        ,
        delta
        ::
        {
            epsilon
            ,
            zeta
        }
        ,
    }
    ;
use alpha::beta::{

    gamma,

    delta,

};

// inb008 long paths and long lists that cannot fit in one hundred columns
use a_very_long_crate_name_for_the_import::a_very_long_module_name_inside_that_crate::another_very_long_module_name::TheItemThatIsFinallyImported;

use a_very_long_crate_name_for_the_import::a_very_long_module_name_inside_that_crate::another_very_long_module_name::{TheItemThatIsFinallyImported, AndASecondOne};

use some_crate::{Aaaaaaaaaaaaaaaa,Bbbbbbbbbbbbbbbbbb,Cccccccccccccccccc,Dddddddddddddddddd,Eeeeeeeeeeeeeeeeee,Ffffffffffffffffff,Gggggggggggggggg};
use some_crate::{first_module::{Aaaaaaaaaaaaaaaa,Bbbbbbbbbbbbbbbbbb,Cccccccccccccccccc},second_module::{Dddddddddddddddddd,Eeeeeeeeeeeeeeeeee},third_module::*,Zzzz};
use some_crate::{a,b,c,d,e,f,g,h,i,j,k,l,m,n,o,p,q,r,s,t,u,v,w,x,y,z,aa,bb,cc,dd,ee,ff,gg,hh,ii,jj,kk,ll,mm,nn,oo,pp,qq};

/* inb009 a list whose single element is itself very long */
use some_crate::{an_extremely_long_module_name_that_goes_on_and_on::and_then_another_extremely_long_module_name::AndATypeAtTheEnd};

// inb010 ordering of mixed case names, numbers, self, globs and nested lists
use z::{b,B,a,A,_c,_C,a1,a10,a2,A1,A10,A2,self,*,zz::{y,x},ZZ::{Y,X}};
/* inb019 names with digits */
use x86::{x86_64,x86_32,x8,X8,x08,x008};
use m::{u8,u16,u32,u64,u128,i8,usize,U8,U16};
use m::{self,self}; // inb020 the same name twice
use m::{a,a,a};
use m::{a::{b},a::{c},a::d};

/* inb011 raw identifiers and unicode identifiers in paths */
use r#mod::r#type::{r#fn,r#struct,r#match};
use crate::r#async::{r#await,r#dyn};
// inb021 identifiers outside ascii
use straße::{größe,länge};
use 東京::{駅,線::山手};
use données::{é,è,ê,e};
use Ελληνικά::{α,β,γ};

// inb012 imports inside a function body and an inline module
fn body_of_function_with_imports() {
    use a::{c,b};
    // inb013 comment between two statements that are imports
    use super::{z,y,x::{w,v}};
    let value = HashMap::new();
    use std::collections::{HashMap,BTreeMap}; /* inb014 import after a let */
    {
        use inner::{q,p}; // inb022 in a nested block
        use inner::*;
    }
}
mod inline_module_with_imports { use super::*; use self::inner::{b,a}; mod inner {} }
