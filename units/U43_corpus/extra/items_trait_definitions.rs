// rustfmt-edition: 2021
// Extra corpus (written for the checks, not taken from rustfmt): trait definitions, supertraits, associated consts types and fns with and without defaults, trait aliases, auto and unsafe traits.

trait   A{}
trait B {

}
pub trait C:A{}
pub(crate)trait D : A + B { }
// trd001 qualifiers on the trait keyword
unsafe trait E{}
auto trait F{}
unsafe auto trait G{}
pub unsafe auto trait H{}
/* trd002 supertrait lists of various lengths */
trait J:'static{}
trait K:?Sized{}
trait L<'a>:'a+A+for<'b> M<'b>+Iterator<Item=&'a u8>+(Send)+?Sized{}
trait ATraitWithALongName:FirstSuperTraitWithALongName+SecondSuperTraitWithALongName+ThirdSuperTraitWithALongName+Fourth{}
trait ATraitWithALongNameAndGenerics<FirstParameter,SecondParameter>:FirstSuperTraitWithALongName<FirstParameter>+Second<SecondParameter>where FirstParameter:Clone{}
trait N:
    A + B {} // trd003 comment at the end of a trait with a broken supertrait list

// trd004 associated constants
trait Consts {
    const A:u8;
    const B:u8=1;
    const C : & 'static [ & 'static str ] = & [ "a" , "b" , ] ;
    const A_RATHER_LONG_ASSOCIATED_CONSTANT_NAME:SomeLongTypeName<WithParameters>=SomeLongTypeName::with_a_constructor(1,2,3);
    #[deprecated] const D:();
    const r#const:r#type;
}
/* trd005 associated types */
trait Types {
    type A;
    type B:Clone;
    type C:Clone+Send+'static=u8;
    type D=Vec<Self::A>;
    type E<'a>where Self:'a;
    type F<'a,T:'a+?Sized,const N:usize>:Iterator<Item=&'a T>+'a where Self:'a,T:Clone;
    type G<T>:?Sized+for<'x> Tr<'x,T>=dyn for<'x> Tr<'x,T> where T:Copy;
    type AnAssociatedTypeWithALongName:FirstBoundWithALongName+SecondBoundWithALongName+ThirdBoundWithALongName+Fourth;
    // trd006 comment between associated types
    #[cfg(feature="x")] type H;
    type I : ?Sized ; /* trd007 a lone relaxed bound sits on the left */
}
// trd008 associated functions, required and provided
trait Fns {
    fn a();
    fn b(&self);
    fn c(&mut self,x:u8,)->u8;
    fn d(self:Box<Self>)where Self:Sized;
    fn e(){}
    fn f(&self)->u8{0}
    fn g<T:Clone>(&self,t:T)->T where T:Default{t}
    async fn h(&self);
    async fn i(&self)->u8{1}
    unsafe fn j();
    unsafe extern "C" fn k(x:*const u8,...);
    const fn l()->u8;
    fn m(&self)->impl Iterator<Item=u8>+'_;
    fn n(_:u8,_:u16);
    fn o(&self, // trd009 comment after self in a required method
         x: u8 /* trd010 before the closing parenthesis */);
    #[must_use]#[inline] fn p(&self)->bool{true}
    /// trd011 documented required method
    fn q(&self)->Result<SomeRatherLongOkTypeName<Self::Assoc>,SomeRatherLongErrorTypeName<Self::Other>>;
    fn a_required_method_with_a_long_name_and_many_arguments(&self,first_argument:FirstType,second_argument:SecondType)->ReturnType;
    fn r(&self)where Self:Sized,Self::Item:Clone+Send+Sync+'static,for<'a> &'a Self:IntoIterator<Item=&'a Self::Item>;
}
/* trd012 mixed bodies with macros, attributes and blank lines */
pub trait Mixed<'a,T,const N:usize=0>:A where T:'a {
    #![allow(unused)]
    const K:usize=N;


    type Item:'a;

    fn get(&'a self)->Self::Item;
    mac!{}
    mac2!(a,b);
    // trd013 the last thing in the body is a comment
}
trait OnlyComment {
    // trd014 a trait body with nothing but a comment
}
trait OnlyBlock { /* trd015 a trait body with a block comment */ }
// trd016 trait aliases
trait Al=A;
pub trait Al2=A+B+Send+'static;
trait Al3<T>=Iterator<Item=T>where T:Clone;
trait Al4<'a,T:'a>=for<'b> Fn(&'b T)->&'a T+Send;
pub(crate) trait ATraitAliasWithALongName<T>=FirstSuperTraitWithALongName<T>+SecondSuperTraitWithALongName+ThirdSuperTrait;
/* trd017 generic traits with defaults */
trait Add2<Rhs=Self,Out=<Self as Add<Rhs>>::Output>{type Output;fn add(self,rhs:Rhs)->Self::Output;}
trait Ünï<Größe>{const 名前:Größe;fn größe(&self)->Größe;}
trait r#trait{fn r#fn(&self);}
trait Short{fn s();}
trait Nested{fn outer(){trait Inner{fn i();} impl Inner for(){fn i(){}}}}
#[cfg(any())]#[doc(hidden)]pub unsafe trait Attributed:Sized{}
