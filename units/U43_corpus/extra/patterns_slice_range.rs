// rustfmt-edition: 2021
// Extra corpus (written for the checks, not taken from rustfmt): slice patterns with rest and bindings, and range patterns of every kind (closed, half-open, open-ended, paths, negative and typed literals).

// slr001 slices first
fn short(s:&[u8])->u8{match s{[]=>0,[a]=>*a,[a,..]=>*a}}

fn slices(v: &[i32], w: &mut [String], nested: &[[u8; 2]]) -> i32 {
    match v {
        [ ] => 0, // slr002 the empty slice with a space inside
        [x,] => *x,
        [ first , second ] => first+second,
        [first,..,last] => first*last, /* slr003 rest in the middle */
        [..,last] if *last>0 => *last,
        [first,..] => *first,
        [..] => unreachable!(),
    }
    match v {
        // slr004 bindings of the rest
        [head, tail @ ..] => head + tail.len() as i32,
        [init@..,last] => init.len() as i32 + last,
        [a,b,middle @ ..,y,z] => a+b+y+z+middle.iter().sum::<i32>(),
        [first_element_with_long_name, second_element_with_long_name, third_element_with_long_name, remaining_elements_with_long_name @ ..] => 0,
        all@[..] => all.len() as i32,
        /* slr005 ref and mut in slices */
        [ref a, ref mut b, mut c, ref mut rest @ ..] => 1,
        &[a,b] => a-b,
    }
    match w {
        [] | [_] => {} // slr006 short alternatives of slices
        [a, b, ..] | [.., a, b] if a==b => {}
        [ .. ] => {}
    }
    match nested {
        [[0,0],[1,1]] => 1,
        [[a,_],..,[_,b]] => (*a+*b) as i32, /* slr007 slices inside slices */
        [[..],[..],[..]] => 3,
        [inner@[_,_], ..] => inner[0] as i32,
        _ => 0,
    }
}

// slr008 slices in let, parameters, for and closures
fn other_places([a,b,c]:[u8;3], &[x,y]:&[f32;2], [[p,q],[r,s]]:[[i8;2];2]) {
    let [one,two,three]=[1,2,3];
    let [first, .., last] = array_of_numbers;
    let [head, tail@..] = array else { return; }; // slr009 let else with a slice
    let [Some(a), None, Some(b@1..=5), ..] = options else { panic!("no") };
    let [(k1,v1),(k2,v2),] = pairs;
    let [Point{x:x1,y:y1},Point{x:x2,..}] = points;
    /* slr010 a long array pattern in a let */
    let [first_component_of_the_vector, second_component_of_the_vector, third_component_of_the_vector, fourth_component_of_the_vector] = compute_the_vector(input);
    for [a,b] in chunks {}
    for &[lo, hi, ..] in windows.iter() { use_pair(lo,hi) }
    let f = |[a,b]:[u8;2]| a+b;
    let g=|&[x, ref rest @ ..]:&[u8;4],[]:[u8;0]|x;
    if let [b'0'..=b'9', b'a'..=b'f'|b'A'..=b'F', ..] = bytes {} // slr011 ranges inside a slice
    while let [_, rest @ ..] = remaining { remaining = rest; }
}

// slr012 now the ranges
fn ranges(n: i64, c: char, b: u8, f: f64, u: usize) {
    match n {
        0..=9 => {}
        10 ..= 99 => {} /* slr013 spaces round the operator */
        100..1000 => {}
        1000.. => {}
        ..=-1 => {}
        _ => {}
    }
    match n { ..0 => {}, 0 => {}, 1.. => {} }
    match n {
        // slr014 negative and typed bounds
        -100..=-1 => {}
        - 200 ..= - 101 => {}
        -1_000_i64..=-201i64 => {}
        i64::MIN..=-1001 => {}
        0x00..=0xff|0o1000..=0o7777|0b1_0000_0000_0000..=0b1111_1111_1111_1111 => {}
        LOWER_BOUND_CONSTANT..=UPPER_BOUND_CONSTANT => {}
        crate::limits::LOWER..=self::limits::UPPER => {} /* slr015 path bounds */
        <i64 as Bounded>::MIN_VALUE..=<i64 as Bounded>::MAX_VALUE => {}
        some::very::long::module::path::to::the::LOWER_BOUND_CONSTANT_NAME..=some::very::long::module::path::to::the::UPPER_BOUND_CONSTANT_NAME => {}
        _ => {}
    }
    match c { 'a'..='z'=>{}, 'A' ..= 'Z' => {}, '\0'..=' '=>{}, '\u{80}'..='\u{10FFFF}' => {}, 'α'..='ω' => {}, _=>{} }
    // slr016 byte and float ranges
    match b { b'a'..=b'z'=>1, b'\x00'..=b'\x1f'=>2, b'\''..=b'\\' => 3, 128u8.. => 4, _=>5 };
    match f { 0.0..=1.0=>{}, -1.5e-3..=-0.0 => {}, 1.0f64..2.0f64 => {}, f64::EPSILON..=f64::MAX => {} _=>{} }
    match u { ..=usize::MAX => {} }
}

fn ranges_in_context(t: (u8, i8), r: &u8, o: Option<u32>) {
    match t { (0..=9, -5..=5) => {}, (10.., ..0) => {}, (..=9, 0..) => {} /* slr017 ranges in tuples */ _ => {} }
    match r { &(0..=9) => {}, &(10..) => {}, _ => {} } // slr018 parentheses that are required
    match o { Some(0..=9|20..=29)=>{}, Some(n@(30..=39))=>{}, Some(n @ 40..) => {}, Some((50..60)) => {} None|Some(_)=>{} }
    let (0..=255) = (value as u8);
    if let 1..=5 = x {}
    if let ..=0|6.. = x {} /* slr019 open ended ranges joined by a bar */
    let in_range = matches!(x, 1..=5|7..);
    let h = |0..=u8::MAX: u8| ();
    match x { 0.. if x%2==0 => {}, ..=-1 if x%2==1 => {}, _ => {} }
    match s { [..=0, 1.., ..] => {}, [0..=9, rest@..] => {}, _ => {} } // slr020 rest and range look alike
}
