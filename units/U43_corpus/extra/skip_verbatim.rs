// Extra corpus (written for the checks, not taken from rustfmt): skip-marked code in every position. The lines between a SKIP-BEGIN and the
// SKIP-END comment of the same number are one skip-marked node (or an item that carries an attribute named by skip::attributes / a call of a
// macro named by skip::macros, the rest of it already laid out): C04 says they keep their bytes.
#![rustfmt::skip::attributes(custom_a)]
#![rustfmt::skip::macros(keep_m)]

// SKIP-BEGIN 1
#[rustfmt::skip]
fn   free_fn ( a : u32 ,b:u32 )   ->u32 { a+b }
// SKIP-END 1

// SKIP-BEGIN 2
#[rustfmt::skip]
struct   S  { a :u32 ,  b:u32 }
// SKIP-END 2

// SKIP-BEGIN 3
#[rustfmt::skip]
const   K :u32=1 ;
// SKIP-END 3

// SKIP-BEGIN 4
#[custom_a(  x ,y  )]
fn a4() {}
// SKIP-END 4

// SKIP-BEGIN 5
keep_m!(  a ,b   ,  c );
// SKIP-END 5

impl S {
    // SKIP-BEGIN 6
    #[rustfmt::skip]
    fn   method ( & self )->u32 { self . a }
    // SKIP-END 6

    // SKIP-BEGIN 7
    #[custom_a(  in_impl ,y  )]
    fn a7(&self) {}
    // SKIP-END 7

    fn body(&self) {
        // SKIP-BEGIN 8
        #[rustfmt::skip]
        let   x=[1,2,
                 3];
        // SKIP-END 8
        // SKIP-BEGIN 9
        keep_m!(  in_method ,b   ,  c );
        // SKIP-END 9
        let c = || {
            // SKIP-BEGIN 10
            #[rustfmt::skip]
            let   y  =  ( 1,2 ) ;
            // SKIP-END 10
            // SKIP-BEGIN 11
            keep_m!(  in_closure ,b );
            // SKIP-END 11
            // SKIP-BEGIN 12
            #[custom_a(  in_closure ,y  )]
            fn a12() {}
            // SKIP-END 12
        };
        // SKIP-BEGIN 13
        #[rustfmt::skip]
        match   x { _=>{ } }
        // SKIP-END 13
    }
}

trait T {
    // SKIP-BEGIN 14
    #[rustfmt::skip]
    fn   required ( & self ) ;
    // SKIP-END 14

    // SKIP-BEGIN 15
    #[custom_a(  in_trait ,y  )]
    fn a15(&self);
    // SKIP-END 15
}

mod m {
    // SKIP-BEGIN 16
    #[rustfmt::skip]
    pub   fn  in_mod ( ) { }
    // SKIP-END 16

    mod deeper {
        impl X {
            // SKIP-BEGIN 17
            #[rustfmt::skip]
            fn   deep ( ) { }
            // SKIP-END 17
        }
    }
}

// SKIP-BEGIN 18
#[rustfmt::skip]
mod   inline_mod  { fn  f ( ) { } }
// SKIP-END 18

// SKIP-BEGIN 19
#[rustfmt::skip]
enum   E { A ,B ( u32 ) }
// SKIP-END 19

enum F {
    // SKIP-BEGIN 20
    #[rustfmt::skip]
    A  {  x :u32 },
    // SKIP-END 20
    B,
}

struct G {
    // SKIP-BEGIN 21
    #[rustfmt::skip]
    a  :  Vec< u32 >,
    // SKIP-END 21
    b: u32,
}

fn arms(x: u32) {
    match x {
        // SKIP-BEGIN 22
        #[rustfmt::skip]
        0   =>  { 1 ; }
        // SKIP-END 22
        _ => {}
    }
    // SKIP-BEGIN 23
    #[rustfmt::skip]
    fn   nested_item ( ) { }
    // SKIP-END 23
    #[rustfmt::skip::macros(local_m)]
    fn uses_local() {
        // SKIP-BEGIN 24
        local_m!(  a ,b );
        // SKIP-END 24
    }
}

// SKIP-BEGIN 25
#[rustfmt::skip]
impl   S  { fn  g ( ) { } }
// SKIP-END 25

// SKIP-BEGIN 26
#[rustfmt::skip]
trait   U  { fn  h ( ) ; }
// SKIP-END 26

// SKIP-BEGIN 27
#[rustfmt::skip]
type   A  =  Vec< u32 > ;
// SKIP-END 27

// SKIP-BEGIN 28
#[rustfmt::skip]
static   Z :u32=1 ;
// SKIP-END 28

// SKIP-BEGIN 29
#[rustfmt::skip]
macro_rules!   mr  { ( ) => { } }
// SKIP-END 29

extern "C" {
    // SKIP-BEGIN 30
    #[rustfmt::skip]
    fn   ext ( a :u32 ) ;
    // SKIP-END 30
}
