// Extra corpus of U46 (written for the check, not taken from rustfmt): comments inside expressions and statements. Every comment holds a unique word.
fn exprs(a: u32, b: u32, s: S) -> u32 {
    let x = a /* cex001 behind the left operand */ + b;
    let y = a + /* cex002 before the right operand */ b;
    let z = a // cex003 line comment behind the left operand
        + b;
    let t = (a, /* cex004 in a tuple */ b);
    let u = [a, b /* cex005 behind an array element */];
    let c = |p: u32| /* cex006 before a closure body */ p + 1;
    let d = |p: u32| {
        // cex007 first line of a closure block
        p + 1
    };
    let e = foo(a /* cex008 behind an argument */, b);
    let f = foo(
        a, // cex009 line comment behind an argument
        b,
    );
    let g = s
        .first() // cex010 behind a chain element
        .second(/* cex011 inside empty call parens */)
        /* cex012 between chain elements */
        .third();
    let h = if a > b /* cex013 behind a condition */ {
        a // cex014 in the then branch
    } else /* cex015 between else and brace */ {
        b
    };
    let i = match a {
        // cex016 before the first arm
        0 => 1, // cex017 behind an arm
        1 /* cex018 behind a pattern */ => 2,
        2 => /* cex019 behind the arrow */ 3,
        3 if b > 1 /* cex020 behind a guard */ => 4,
        /* cex021 block comment before an arm */
        4 => {
            // cex022 first line of an arm block
            5
        }
        _ => 0,
        // cex023 behind the last arm
    };
    let j = S {
        a, // cex024 behind a shorthand field
        b: b, /* cex025 behind a field */
        // cex026 before the base
        ..s
    };
    let k = a as /* cex027 inside a cast */ u64;
    let l = &/* cex028 behind an ampersand */ a;
    let m = -/* cex029 behind a minus */ (a as i32);
    let n = a..= /* cex030 inside a range */ b;
    let o = u[0 /* cex031 inside an index */];
    let Some(p) = foo(a, b) /* cex032 before let else */ else {
        // cex033 in the else block of let else
        return 0;
    };
    let q: /* cex034 before a let type */ u32 = 1;
    let r /* cex035 behind a let pattern */ = 2;
    let v = /* cex036 behind the equals sign */ 3;
    for w in 0..a /* cex037 behind the iterator */ {
        // cex038 in a for body
        continue;
    }
    while a > b /* cex039 behind a while condition */ {
        break; // cex040 behind break
    }
    'outer: loop /* cex041 behind loop */ {
        break 'outer;
    }
    return a /* cex042 inside return */ + b; // cex043 behind return
}

fn statements() {
    // cex044 first line of a body
    let a = 1; // cex045 behind a statement

    // cex046 between statements
    /* cex047 block between statements */
    let b = 2;
    foo(); /* cex048 block behind a statement */
    ; // cex049 behind an empty statement
    unsafe {
        // cex050 in an unsafe block
        bar();
    }
    async move {
        // cex051 in an async block
        baz().await /* cex052 behind await */
    };
    let c = async /* cex053 behind async */ { 1 };
    let d = x? /* cex054 behind a question mark */;
    let e = (/* cex055 inside parens */ a + b) * 2;
    // cex056 last line of a body
}
