// rustfmt-edition: 2021
// Extra corpus (written for the checks, not taken from rustfmt): inline nested modules, extern blocks with fns statics and types, extern crate declarations.

mod   a{}
mod b { }
mod c {

}
pub mod d{pub mod e{pub mod f{pub mod g{pub mod h{}}}}}
// mex001 modules holding a single item of each kind
mod one_fn{fn f(){}}
mod one_struct{struct S;}
mod one_const{const C:u8=1;}
pub(crate) mod vis1{pub(super) mod vis2{pub(in crate::vis1) mod vis3{pub(self) mod vis4{}}}}
unsafe mod unsafe_module{}
/* mex002 modules with only comments inside */
mod only_comment {
    // mex003 nothing but a line comment
}
mod only_block { /* mex004 nothing but a block comment */ }
mod blank_lines {



    fn first(){}



    fn second(){}



}
// mex005 attributes on and inside modules
#[cfg(test)]#[allow(unused)]mod attributed{#![allow(dead_code)]#![doc="inner doc attribute"]
    //! mex006 inner doc comment of a module
    fn f(){}}
#[path="some/other/file.rs"]#[cfg(any())]mod inline_with_path{}
/// mex007 outer doc comment on a module
pub mod documented{/*! mex008 inner block doc comment */ pub fn f(){}}
mod r#mod{pub mod r#fn{}}
mod größe{pub mod 名前{pub const É:u8=1;}}
mod a_module_with_an_exceedingly_long_name_that_almost_fills_the_whole_narrow_line{pub mod and_another_long_one_inside_it{}}
/* mex009 a module with mixed contents and comments between the items */
mod mixed {
    const A:u8=1; // mex010 trailing comment after a const in a module
    static B:u8=2;
    /* mex011 block comment between items in a module */
    struct S{a:u8}
    enum E{A,B}
    trait T{fn f();}
    impl T for S{fn f(){}}
    type Al=S;
    fn f(){ mod inside_fn{ pub fn g(){} } inside_fn::g(); }
    mac!{}
    mod deeper{mod and_deeper{fn h(){} // mex012 comment three modules deep
    }}
    // mex013 the last thing in the module is a comment
}

// mex014 extern blocks
extern "C"{}
extern   "C"   { }
extern "C" {

}
unsafe extern "C"{}
extern "C"{fn f();}
extern "C" { fn g ( a : u8 , b : u16 , ) -> u32 ; pub fn h(x:*const u8,...)->i32; }
extern "system"{fn stdcall_like(handle:*mut c_void,message:u32,wparam:usize,lparam:isize)->isize;}
extern "Rust"{fn rust_abi();}
extern "rust-intrinsic"{fn transmute<T,U>(t:T)->U;}
extern "C-unwind"{fn unwind_abi();}
/* mex015 every kind of foreign item */
#[link(name="foo",kind="static")]#[allow(improper_ctypes)]extern "C" {
    #![allow(unused)]
    pub fn with_names(argc:c_int,argv:*const *const c_char)->c_int;
    fn unnamed(_:c_int,_:c_int);
    #[link_name="actual_symbol_name"] pub fn renamed();
    pub static ERRNO:c_int;
    pub static mut ENVIRON:*mut *mut c_char;
    pub(crate) static A_FOREIGN_STATIC_WITH_A_LONG_NAME:SomeForeignStructTypeWithALongName<WithParameter>;
    pub type Opaque;
    type Private; // mex016 trailing comment after a foreign type
    pub safe fn safe_fn(x:i32)->i32;
    /* mex017 block comment before a foreign fn */
    pub unsafe fn unsafe_fn(x:i32)->i32;
    safe static SAFE_STATIC:u8;
    /// mex018 doc comment on a foreign fn
    fn a_foreign_function_with_a_long_name_and_many_arguments(first_argument:*const FirstType,second_argument:*mut SecondType,third:usize)->*mut ReturnType;
    fn generic_foreign<'a,T>(x:&'a T)->&'a T where T:Sized;
    fn variadic_only(...);
    mac!{}
    mac2!();
}
extern "C" {
    // mex019 an extern block with only a comment
}
extern "C" { /* mex020 an extern block with only a block comment */ }
// mex021 extern crate declarations
extern   crate   alloc ;
extern crate core as core_renamed;
pub extern crate std as   _std ;
#[macro_use]#[no_link]extern crate some_crate;
extern crate r#async;
extern crate self as this_crate;
mod with_extern{extern "C"{fn inner();} extern crate alloc as al; pub unsafe extern "C" fn exported(){}}
fn body_extern(){extern "C"{fn local_foreign();} /* mex022 an extern block inside a fn body */ extern crate alloc;}
mod s{fn f(){}}
