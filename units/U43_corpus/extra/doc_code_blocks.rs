// rustfmt-format_code_in_doc_comments: true
// Extra corpus (written for the checks, not taken from rustfmt): code blocks in doc comments.

/// Top-level hidden lines:
///
/// ```
/// # use std::fmt;
/// # fn hidden() {}
/// let   x  =  1 ;
/// ```
fn top_level_hidden() {}

/// Hidden lines at an indentation:
///
/// ```
/// fn main() {
///     # let hidden = 1;
///     let   visible  =  hidden ;
///     if visible > 0 {
///         # let deeper = 2;
///         println!( "{}" , deeper ) ;
///     }
/// }
/// ```
fn indented_hidden() {}

mod nested {
    /// In a nested item:
    ///
    /// ```rust
    /// fn main() {
    ///     # setup();
    ///     run( 1,2 );
    /// }
    /// ```
    ///
    /// ```text
    /// not   rust  :  keep
    /// ```
    ///
    /// ```ignore
    /// let   ignored  =  1 ;
    /// ```
    ///
    /// ```should_panic
    /// # fn main() {
    ///     panic!( "x" ) ;
    /// # }
    /// ```
    pub fn documented() {}

    impl S {
        /// Method docs:
        ///
        /// ```
        /// let s = S::new( );
        /// #   let spaced_hidden = 1;
        /// #
        /// # // hidden comment
        /// s.go( ) ;
        /// ```
        fn method(&self) {}
    }
}

/** block doc

```
# fn hidden() {}
fn   in_block_doc ( ) { }
```
*/
fn block_doc() {}

/// ~~~
/// let   tilde  =  1 ;
/// ~~~
///
/// ````
/// let   four  =  1 ;
/// ````
///
///     let   indented_block  =  1 ;
///
/// ```compile_fail
/// let broken = ;
/// ```
fn fences() {}
