// rustfmt-edition: 2021
// Extra corpus (written for the checks, not taken from rustfmt): raw string literals with zero to many hashes, quotes, backslashes and comment look-alikes inside, single and multi-line.

// raw001 no hashes at all
const   PLAIN_RAW:&str=r"no escapes \n \t \\ here" ;
const ONE_HASH : & str = r#"a "quoted" word"# ; /* raw002 one hash lets quotes in */
const TWO_HASHES:&str=r##"contains "# which would end a one hash string"##;
const MANY_HASHES:&'static str=r##########"ten hashes "#########" nine inside"##########;
static EMPTY_RAW:&str=r"" ;static EMPTY_RAW_HASH:&str=r#""#;static EMPTY_RAW_TWO:&str=r##""##;
// raw003 text that looks like comments must stay exactly as written
static COMMENT_LIKE:&str=r"// raw_not_a_comment /* nor this one */ and /* an unclosed one";
static COMMENT_LIKE_HASH : &str = r#"/* "quoted" // */ // "# ;
static BACKSLASH_END:&str=r"C:\Users\someone\";
static REGEX:&str=r"^(?P<year>\d{4})-(?P<month>\d{2})-(?P<day>\d{2})T(?P<hour>\d{2}):(?P<minute>\d{2}):(?P<second>\d{2}(?:\.\d+)?)Z?$";

fn multi_line_raw( ) {
    // raw004 indentation inside a raw string must not move
    let a=r"first line
    second line, indented by four
		third line, indented by two tabs
no indent
";
    let b = r#"
{
    "key": "value",
    "list": [1, 2, 3],
    "nested": { "a": null }
}
"# ;   /* raw005 a json document */
    let c = r##"
        fn inner() { let s = r#"nested raw string"#; } // raw_fake_comment
        /* raw_fake_block
"##;
    let d = r"a backslash at the end of a line is not a continuation \
              so this indentation is part of the text";
    // raw006 several in one call
    takes_three ( r"one" ,r#"two
lines"#, r##"three"## ) ;
    let e = r"

";
}

fn raw_in_expressions(input:&str)->bool{
    let joined = [r"a\b",r#"c"d"#,r"e",].concat( );
    let t = (r"x" , r#"y"# ,) ; // raw007 tuple with raw members
    let method = r"some\path" . replace ( r"\" , r"/" ) .to_uppercase();
    /* raw008 block comment before a match on raw patterns */
    match input { r"" => false , r"\" | r#"""# => true,
        r"a long raw pattern which is here only to make the arm wide enough, \d+\s*" => { false }
        // raw009 line comment between arms
        _ if input==r"guard\value" => true ,
        _ => input . starts_with ( r#"""# ) }
}

fn raw_long_literals(){
    let long = r"Lorem ipsum dolor sit amet, consectetur adipiscing elit, sed do eiusmod tempor incididunt ut labore et dolore magna aliqua \ \ \";
    let long_call = regex_new_with_a_long_function_name(r"^\s*(?:(?:[a-zA-Z_][a-zA-Z0-9_]*)\s*::\s*)*(?:[a-zA-Z_][a-zA-Z0-9_]*)\s*\(\s*\)\s*;?\s*$",Options{case_insensitive:true,multi_line:false});
    // raw010 a chain whose receiver is a long raw string
    let chained = r#"{"name":"value","other":"something that is rather long so that the line overflows the width"}"#.parse::<Json>().unwrap().get("name").cloned().unwrap_or_default();
    let s=r"x";let t=r#"y"#;let   u  =  r##"z"## ;
    let unicode_raw = r"Grüße \n Привет 你好 🎉 \u{1F600} is not an escape here" ; /* raw011 unicode in raw */
    let sum = r"aaaaaaaaaaaaaaaaaaaaaaaaaaaaaa".len()+r#"bbbbbbbbbbbbbbbbbbbbbbbbbbbbbbbbbbbbbb"#.len()+r##"cccccccccccccccccccccccccc"##.len();
}

fn raw_identifiers_next_to_raw_strings( r#fn : &str , r#match:&str ) {
    // raw012 r# starts an identifier here and a string there
    let r#struct=r#"struct"#;
    let r#r = r"r" ;
    let pair=(r#fn,r#"fn"#,r#match , r"match" );
    call ( r#struct , /* raw013 between arguments */ r#r , r#"r#r"# ) ;
}

// raw014 raw strings in attributes
#[doc=r"raw documentation with a \ backslash"]
#[doc = r#"raw documentation with "quotes""#]
#[cfg_attr(all(),doc=r##"and "# inside"##)]
struct Documented{
    #[serde(rename=r#"type"#)] r#type : String , // raw015 after a field
    /* raw016 before a field */ #[doc=r"
    multi-line raw
        documentation
"] other:u8
}

enum Patterns{ A=1, // raw017 after a variant
    B }

fn raw_in_macros(){
    println!(r"raw format string {} \n",   1 ) ;
    let s = format ! ( r#"{} said "{}""# ,"someone","something") ;
    assert_eq!( r"a\b" ,"a\\b", r"the raw and the cooked spelling of {} differ" , "this text" );
    /* raw018 a multi-line raw string in a macro call */
    write!(out,r#"
    <html>
        <body class="{}">
        </body>
    </html>
"#,class ) ? ;
    let v=vec![r"a",r#"b"#,   r##"c"##];
}

fn takes_three(_:&str,_:&str,_:&str){}
