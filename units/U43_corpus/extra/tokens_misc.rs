// Extra corpus of U46 (written for the check, not taken from rustfmt): constructs whose tokens are easy to lose.
#![feature(negative_impls, auto_traits)]

unsafe impl<T: Send> Send for Wrapper<T> {}
impl<T> !Send for Wrapper<T> {}
impl<'a, TypeParameterNumberOne, TypeParameterNumberTwo, TypeParameterNumberThree> !SomeRatherLongMarkerTraitName for SomeRatherLongWrapperTypeName<'a, TypeParameterNumberOne, TypeParameterNumberTwo, TypeParameterNumberThree> {}
unsafe auto trait Auto {}
pub(crate) const unsafe extern "C" fn modifiers() {}
pub(in crate::outer) async unsafe fn more_modifiers() {}
default impl<T> Tr for T {}
impl const Tr for U {}

fn one_tuples(t: (u32,)) -> (u32,) {
    let (x,) = t;
    let (y,): (u32,) = (x,);
    match (y,) {
        (0,) => (1,),
        (n,) => (n,),
    }
}

fn closures_and_attrs() {
    let a = || #[allow(unused)] { 1 };
    let b = (#[allow(unused_parens)] (2));
    let c = #[rustfmt::skip] [1,2];
    let d = move |x: u32| -> u32 { x };
    let e = async move |x| x;
    let f = static || yield 1;
}

fn ranges_and_refs() {
    let a = &1. ..2.;
    let b = &mut *p;
    let c = &raw const x;
    let d = 1..=2;
    let e = ..;
    let f = -(-x);
    let g = !!y;
    let h = *&*&z;
    let i = x as u8 as u16;
    let j = a << 1 >> 2 & 3 | 4 ^ 5;
    a += 1; a -= 1; a *= 1; a /= 1; a %= 1; a <<= 1; a >>= 1; a &= 1; a |= 1; a ^= 1;
    let k = 'label: loop { break 'label 1; };
    let r#type = r#match;
    let l = 0xFFu8 + 0o77 + 0b11 + 1_000 + 1e3 + 1.5f32 + b'x' as u8 + 'c' as u8;
    let m = (b"bytes", br#"raw"#, c"cstr", r"raw", "esc\n\t\\");
    let n = x?.y?.z()?;
    let o = try { 1 };
    let p = const { 1 };
    let q = unsafe { 1 };
    let r = if let Some(x) = y && let Some(z) = x { 1 } else { 2 };
    let t = <T as Tr>::Out::default();
    let u = Vec::<u32>::new();
    let v: &'static dyn for<'a> Fn(&'a u32) -> &'a u32 = &|x| x;
    let w: *const u32 = &raw mut y as *const _;
    let z = a.await?;
}

fn patterns(v: V) {
    match v {
        V::A | V::B => {}
        ref x @ V::C(..) => {}
        V::D { ref mut a, b: _, .. } => {}
        &V::E(y) => {}
        1..=5 | 7.. => {}
        [first, .., last] => {}
        [a, rest @ ..] => {}
        (a, b,) => {}
        _ if guard => {}
        mut z => {}
    }
}

pub trait Bounds<'a, T: ?Sized + 'a + Send = u32, const N: usize = 3>: for<'b> Super<'b> + ~const Other where Self: Sized {}
pub struct Vis { pub a: u32, pub(crate) b: u32, pub(super) c: u32, pub(in crate::m) d: u32, pub(self) e: u32 }
extern "system" fn abi() {}
extern fn implicit_abi() {}
extern crate self as this;
static mut COUNTER: u32 = 0;
pub macro decl($a:ident) { $a }
