// rustfmt-edition: 2021
// Extra corpus (written for the checks, not taken from rustfmt): imports to be regrouped into std, external and crate-local groups: every kind of first segment, mixed groups, comments, attributes and visibility in between.
// rustfmt-group_imports: StdExternalCrate

// igi001 one jumbled group with every kind of first segment
use serde::Serialize;
use crate::config::Config;
use std as standard;
use std::collections::HashMap;
use super::parent_item;
use core::fmt::Debug;
use self::child::ChildItem;
use alloc::vec::Vec;
use anyhow::Result;
use ::std::io;
use ::external::absolute;
use ::core::mem;
use proc_macro::TokenStream;
use test::Bencher;
use crate::{a,b};
use super::super::grandparent;
use stdx::not_std;
use core_extra::not_core;
use alloc_more::not_alloc;
use Crate::NotTheKeyword; // igi019 an upper case first letter

/* igi002 groups that are already separated but wrongly assigned */
use crate::one;
use std::two;

use external::three;
use self::four;

use core::five;
use super::six;

use alloc::seven;

const SEPARATOR_1: () = ();
// igi003 lists whose braces start the path, and globs
use {std::a,core::b};
use {external::c,crate::d};
use ::{std::e,core::e2};
use std::*;
use crate::*;
use external::*;
use super::*;
use self::*;
use {self::f}; /* igi020 a single path in braces */
use {crate::g,super::h};

const SEPARATOR_2: () = ();
/* igi004 aliases do not change the group of an import */
use std::fmt::Write as _;
use crate::Trait as _;
use external as std_lookalike;
use external::Trait as _;
use std::io as external_lookalike;
// igi021 aliases named like the standard crates
use crate::thing as std;
use super::thing as core;

const SEPARATOR_3: () = ();
// igi005 trailing comments travel with the import to its new group
use external::with_comment; // igi006 belongs to the external import
use std::with_comment; /* igi007 belongs to the std import */
use crate::with_comment; // igi008 belongs to the crate import
use core::without_comment;
use another_external::without_comment;

const SEPARATOR_4: () = ();
/* igi009 comments between the imports of a jumbled group */
use zzz_external::a;
// igi010 above the std import
use std::b;
/* igi011 above the crate import */
use crate::c;
// igi012 above another external import
use aaa_external::d;

const SEPARATOR_5: () = ();
// igi013 visibility and attributes inside a jumbled group
pub use crate::exported;
pub use std::reexported;
pub(crate) use external::shared;
#[cfg(feature = "std")] use std::conditional;
#[cfg(not(feature = "std"))] use core::conditional;
#[allow(unused_imports)]use crate::allowed;
/// Documentation on an external import.
use external::documented;
pub(in crate::some::path) use super::restricted;

const SEPARATOR_6: () = ();
/* igi014 other items between the groups reset the grouping */
use crate::before_fn;
use std::before_fn;
fn between_groups() {}
use crate::after_fn;
use std::after_fn;
extern crate between_again;
use external::after_extern_crate;
use core::after_extern_crate;
mod inline_separator {}
use self::inline_separator::nothing;
use alloc::after_mod;

const SEPARATOR_7: () = ();
// igi015 long imports in a jumbled group
use crate::a_module_with_a_rather_long_name::{FirstTypeWithALongName,SecondTypeWithALongName,ThirdTypeWithALongName,FourthType};
/* igi022 a nested list of std */
use std::{collections::{hash_map::{Entry,HashMap},BTreeMap,HashSet},io::{self,Read,Write},sync::{Arc,Mutex,atomic::{AtomicUsize,Ordering}}};
use an_external_crate_with_a_long_name::a_module_with_a_long_name::another_module::{first_function,second_function};

const SEPARATOR_8: () = ();
/* igi016 raw and unicode first segments */
use r#std::not_really_std;
use r#crate_like::external;
use r#self_like::external;
use straße::external;
use 名前::external;
use std::r#try::really_std;

const SEPARATOR_9: () = ();
// igi017 regrouping inside a function body and an inline module
fn function_with_jumbled_imports() {
    use crate::a;use std::b;use external::c;use super::d;
    /* igi018 between statements */
    use core::e;use self::f;
    let x = 0;
    use crate::g;
    use alloc::h;
}
mod module_with_jumbled_imports { use super::a;use std::b;use external::c;use crate::d;use self::e::f; mod e {} }
