// rustfmt-edition: 2021
// Extra corpus (written for the checks, not taken from rustfmt): method call chains, field access, tuple fields, turbofish, try operator, await, indexing inside chains.

// mch001 short chains with odd spacing
fn short_chains(){
let a=x.y.z;let b = x . y ( ) . z ( ) ;let c=x.0.1.2; // mch002 tuple fields
let d = x . 0 . 1 ; let e = x.0 .1 ; let f = (x.0).1 ; let g = x.y.0.z.1 ;
/* mch003 calls broken at odd places */
let h = x
.
y
(
)
.z(
) ;
let i = x.y()?.z()?; let j = x?.y?.z? ; let k = x???; // mch004 question marks
let l = x.await ; let m = x.y().await?.z().await? ; let n = x . await . y ; let o = (x.await)?.await ;
}

// mch005 turbofish and generic method calls
fn turbofish(){
let a = x.collect::<Vec<_>>() ; let b = x.parse::<u32>()? ; let c = x.into_iter().map(f).collect::<HashMap<String,Vec<Option<u8>>>>() ;
let d = x.method::<T,>() ; let e = x.method::<'a,T,{N+1},3>() ; /* mch006 lifetime, type, const block and literal arguments */
let f = Vec::<u8>::new().len() ; let g = <Vec<u8>>::new().len() ; let h = <Vec<u8> as Default>::default().len() ;
let i = x . collect :: < Vec < _ > > ( ) ; // mch007 turbofish with spaces everywhere
let j = iterator_with_a_long_name.into_iter().filter_map(|element| element.checked_mul(2)).collect::<std::collections::BTreeMap<SomeKeyType, SomeValueType>>();
}

// mch008 long chains that must break
fn long_chains(){
let result = self.configuration.get_section("formatting").and_then(|section| section.get_value("max_width")).map(|value| value.parse::<usize>()).unwrap_or(Ok(100))?;
let x = some_object.first_method_in_the_chain().second_method_in_the_chain(argument).third_method_in_the_chain(another_argument, yet_another_argument).fourth();
// mch009 chain with a closure that has a block body in the middle
let y = items.iter().filter(|item|{let keep = item.is_valid(); /* mch010 inside the closure block */ keep && item.len()>3}).map(|item| item.name.clone()).collect::<Vec<_>>();
let z = a.b.c.d.e.f.g.h.i.j.k.l.m.n.o.p.q.r.s.t.u.v.w.x.y.z.a.b.c.d.e.f.g.h.i.j.k.l.m.n.o.p.q.r.s.t.u.v.w.x.y.z.a.b.c.d.e.f.g.h.i.j;
    /* mch011 chain after a long call */
let w = some_function_with_a_rather_long_name(first_argument_to_the_function, second_argument_to_the_function).unwrap().into_inner();
let v = SomeStruct{field_one:1,field_two:2}.method_on_struct().another_method_on_the_result_of_that(argument_value_one, argument_value_two);
let u = "a string literal at the head of the chain".chars().rev().filter(|c| c.is_alphabetic()).map(|c| c.to_ascii_uppercase()).collect::<String>();
}

// mch012 chains starting from unusual heads
fn unusual_heads(){
let a = (a+b).c() ; let b = (-a).abs() ; let c = (&a).b() ; let d = (*a).b() ; let e = (a as u8).b() ; let f = (a..b).c() ;
let g = [1,2,3].iter().sum::<i32>() ; let h = (1,2).0.max((3,4).1) ; let i = {a}.b() ; let j = unsafe{a}.b() ; // mch013 blocks as receivers
let k = (if a {b} else {c}).d() ; let l = (match a {_=>b}).c() ; let m = (|| a)().b() ; let n = (async{a}).await.b() ;
let o = 1.max(2) ; let p = 1.0.max(2.0) ; let q = 1u8.max(2) ; let r = 1.0f32.sqrt() ; let s = 0x1f.max(2) ; let t = 1e3.floor() ; /* mch014 literal receivers */
let u = "é".len() ; let v = 'c'.is_alphabetic() ; let w = b"bytes".len() ; let x = true.then(||1) ; let y = ().clone() ;
let z = r#type.r#match().r#fn ; let aa = self.r#struct.r#impl() ; // mch015 raw identifiers in the chain
let ab = Self::CONSTANT.method() ; let ac = <T>::f().g() ; let ad = path::to::function()?.field.method()?.await ;
let ae = macro_call!(x).method().another() ; let af = vec![1,2,3].into_iter().map(|x|x+1).collect::<Vec<_>>() ;
}

/* mch016 indexing inside chains */
fn indexing(){
let a=x[0];let b = x [ 0 ] [ 1 ] ;let c=x[0].y[1].z[2]; // mch017 index and field mixed
let d = x[i+1][j-1] ; let e = x[[1,2]] ; let f = x[(1,2)] ; let g = x[{1}] ; let h = x[if a {0} else {1}] ; let i = x["key"]["another key"] ;
let j = x.y()[0].z()[1] ; let k = x?[0]? ; let l = x.await[0] ; let m = (x)[0] ; let n = (*x)[0] ; let o = (&x)[0] ; let p = &x[0] ; let q = &mut x[0][..] ;
/* mch018 long index expressions */
let r = some_two_dimensional_table_with_a_long_name[row_index_computed_from_something + row_offset][column_index_computed_from_something + column_offset];
let s = self.some_field_holding_a_map[&some_key_expression_that_is_quite_long.to_string()].some_method_on_the_value(with_an_argument).unwrap_or_default();
let t = x[y[z[w[0]]]] ; let u = x[0][1][2][3][4][5][6][7][8][9] ; let v = x[..][1..][..2][3..4][5..=6] ; // mch019 nested and repeated
let w = x[f(a,b,)] ; let y = x[a.b.c] ; let z = x[a as usize] ; let aa = x[!a] ; let ab = x[-a] ; let ac = x[a?] ; let ad = x[|a|a] ;
}

// mch020 calls with awkward arguments in chains
fn call_arguments(){
let a = f()()() ; let b = f(g(h(i(j(k()))))) ; let c = (f)(x) ; let d = (f.g)(x) ; let e = (f.g())(x) ; let f = f.g()(x) ; // mch021 calling the result of calls
let g = x.f(a,).g(b,c,).h() ; let h = x.f( /* mch022 comment as the only thing between arguments */ a , b ).g() ;
let i = x.f(a, // mch023 trailing comment after the first argument
b).g();
let j = builder.name("a name").value(42).flag(true).nested(Builder::new().inner_name("inner").inner_value(7).build()).build()?;
let k = object.method_with_many_arguments(first_argument_value, second_argument_value, third_argument_value, fourth_argument_value, fifth).next();
let l = future_one.await?.future_two().await?.future_three(argument_to_three).await?.future_four(argument_to_four_a, argument_to_four_b).await?;
let m = x.await.await.await ; let n = x?.await?.await? ; let o = x.y?.z?.w ; let p = x.0?.1?.2 ; // mch024 postfix mixtures
}
