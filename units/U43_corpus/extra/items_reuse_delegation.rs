// rustfmt-edition: 2021
// Extra corpus (written for the checks, not taken from rustfmt): a delegation item (reuse) inside an impl block makes rustfmt panic at src/visitor.rs:684 (unreachable code), exit status 101.

impl S { reuse a::b; }
