// rustfmt-edition: 2021
// Extra corpus (written for the checks, not taken from rustfmt): declarative macros 2.0 (the macro keyword) in the single-arm form and in the several-arm form, with visibilities, attributes, all fragment kinds and repetitions.

// dcl001 the simplest single-arm forms
macro empty(){}
macro   unit  (  )  {  (  )  }
pub macro one_arg($x:expr){ $x+1 }
pub(crate)macro two_args($a:expr,$b:expr){ $a*$b }
pub(in crate::some::path) macro restricted($a:ident){ let $a=0; }
pub(super) macro in_super($t:ty){ <$t as Default>::default() }

/* dcl002 one definition per fragment kind */
macro k_block($b:block){ unsafe $b }
macro k_expr($e:expr){ ($e,$e) }
macro k_ident($i:ident){ fn $i(){} }
macro k_item($it:item){ #[derive(Debug)] $it }
macro k_lifetime($l:lifetime){ $l:loop{ break $l; } }
macro k_literal($li:literal){ concat!($li,"suffix") }
macro k_meta($m:meta){ #[$m] fn attributed(){} }
macro k_pat($p:pat){ if let $p=value{ } }
macro k_pat_param($p:pat_param){ |$p|() }
macro k_path($p:path){ $p::<u8>::new() }
macro k_stmt($s:stmt){ { $s; $s } }
macro k_tt($t:tt){ stringify!($t) }
macro k_ty($t:ty){ ::core::mem::size_of::<$t>() }
macro k_vis($v:vis){ $v const C:u8=0; }

// dcl003 several arms separated by commas
macro comma_arms{ ()=>{ 0 }, ($a:expr)=>{ $a }, ($a:expr,$b:expr)=>{ $a+$b } }
macro comma_arms_trailing{ ()=>{ 0 }, ($a:expr)=>{ $a }, }
pub macro two_arms_in_braces{ ($a:expr)=>{ $a } ($a:expr,)=>{ $a } }

/* dcl004 several arms separated by semicolons or by nothing at all */
macro semicolon_arms{ ()=>{ 0 }; ($a:expr)=>{ $a }; ($a:expr,$b:expr)=>{ $a+$b }; }
macro semicolon_arms_no_last{ ()=>{ 0 }; ($a:expr)=>{ $a } }
macro juxtaposed_arms{ ()=>{ 0 } ($a:expr)=>{ $a } ($a:expr,$b:expr)=>{{ let t=$a; t+$b }} }

// dcl005 arms with other delimiters
macro paren_bodies{ ()=>( 0 ); ($a:expr)=>( $a ) }
macro bracket_bodies{ ()=>[ 0 ]; [$a:expr]=>[ $a ] }
macro mixed_matchers{ [$a:expr]=>{ $a } {$a:expr,$b:expr}=>{ $a-$b } }

/* dcl006 attributes and documentation on the definitions */
#[rustc_builtin_macro] #[allow_internal_unstable(fmt_internals)]
pub macro builtin_like($fmt:expr,$($args:tt)*){  } // dcl007 the compiler provides the body

/// Documentation for a macro defined with the macro keyword.
#[doc(hidden)] #[macro_export]
pub macro documented($x:expr){ $x }

// dcl008 repetitions in the matcher only and in both places
macro rep_matcher_only($($x:expr),* $(,)?){ compute(1,2,3) }
macro rep_both($($x:expr),*){ [$($x),*] }
macro rep_nested($($name:ident=[$($v:expr),*]);*){ $(let $name=[$($v),*];)* }
macro rep_arms{ ($($x:expr),*)=>{ sum(0) }; ($($x:expr);*)=>{ product(1) }; }

/* dcl009 bodies that generate items and other macros */
macro make_struct($n:ident,$f:ident,$t:ty){ pub struct $n{ pub $f:$t } impl $n{ pub fn new($f:$t)->Self{ Self{$f} } } }
macro make_macro($n:ident){ macro $n(){ 1 } }
macro make_macro_rules($n:ident){ macro_rules! $n{ ()=>{ 1 }; } }

// dcl010 long matchers and long bodies
macro long_one($first_metavariable_name:expr,$second_metavariable_name:expr,$third_metavariable_name:expr){ some_function_with_a_long_name($first_metavariable_name,$second_metavariable_name,$third_metavariable_name) }
macro long_arms{ ($first_metavariable_name:expr,$second_metavariable_name:expr)=>{ $first_metavariable_name.some_method_name($second_metavariable_name).another_method_name().and_a_third_one() }; ($a:expr)=>{ $a }; }

/* dcl011 definitions in modules, impls are not allowed, functions and blocks */
mod inner{ pub macro in_module($t:ty){ <$t>::default() } pub(self) macro private_one(){ } }

fn local_definitions(){
    macro local($x:expr){ $x*2 }
    let a=local!(3);
    // dcl012 between a local decl macro and its second use
    let b={ macro inner_local(){ 7 } inner_local!() };
}

// dcl013 unicode and raw identifiers
macro größe($länge:expr){ $länge as f64*1.0e0 }
macro r#match($r#in:expr){ $r#in }

/* dcl014 hygiene related spellings: dollar crate, paths and calls of other macros */
macro hygiene($x:ident){ $crate::inner::in_module!(u8); let $x=$crate::VALUE; ::core::assert!($x>0); }
