// rustfmt-edition: 2021
// Extra corpus (written for the checks, not taken from rustfmt): extern crate declarations with aliases, underscore aliases, self, macro_use and other attributes, visibility, and groups that rustfmt reorders.

// iex001 a group of plain declarations in the wrong order and with odd spacing
extern crate zzz;
extern   crate   yyy  ;
extern
crate
xxx
; // iex014 one token per line
extern crate Upper_case_crate;
extern crate lower_case_crate;
extern crate _leading_underscore;
/* iex015 names that end in numbers */
extern crate a1;
extern crate a10;
extern crate a2;
extern crate aaa;

/* iex002 aliases, including the underscore alias and self */
extern crate zzz as aaa_alias;
extern crate aaa as zzz_alias;
extern crate alloc as _;
extern crate   std   as   _  ;
extern crate self as this_crate; // iex016 the crate itself
extern crate self   as   the_very_same_crate_under_another_name ;
extern crate core as r#core_raw;
extern crate r#try;
extern crate r#async as r#await;
extern crate r#match as matching; // iex003 trailing line comment after a raw crate name
extern crate größe;
extern crate données as daten; /* iex004 trailing block comment after a unicode crate name */
extern crate 名前 as 名;

// iex005 macro_use and other attributes in every layout
#[macro_use] extern crate log;
#[macro_use]extern crate serde_derive;
#[macro_use(lazy_static)] extern crate lazy_static;
#[macro_use(first_macro,second_macro , third_macro ,)] extern crate many_macros;
#[ macro_use ( one ) ] # [ no_link ] extern crate one_macro as om;
#[no_link] extern crate linked_not; /* iex017 never linked */
#[macro_use]
#[no_link]

extern crate blank_line_after_attributes;
// iex018 conditional compilation attributes
#[cfg(feature="some-feature")] #[macro_use] extern crate optional_dependency as optional;
#[cfg(all(feature="first-feature-with-long-name",not(feature="second-feature-with-long-name"),any(unix,windows,target_os="redox")))] extern crate conditional_crate;
#[cfg_attr(feature="nightly-only-feature",macro_use(a_macro_with_a_long_name,another_macro_with_a_long_name,and_a_third_macro_name))] extern crate configured_macros;
#[allow(unused_extern_crates)]#[doc(hidden)]pub extern crate reexported;

/* iex006 documentation comments on declarations */
/// A documented extern crate.
extern crate documented;
/** A block documented extern crate. */
extern crate block_documented as bd;
#[doc = "documented through an attribute"] extern crate attribute_documented;
/// Documentation
#[macro_use]
/// between attributes
extern crate doc_between_attributes;

// iex007 visibility on extern crate
pub extern crate public_crate;
pub   extern   crate   public_alias   as   pa ;
pub(crate) extern crate crate_visible;
pub ( crate ) extern crate crate_visible_alias as cva;
pub(super) extern crate super_visible;
pub(self) extern crate self_visible as sv; // iex019 restricted to self
pub(in crate::some::path) extern crate path_visible;
pub ( in super :: super ) extern crate path_visible_alias as pva;

/* iex008 very long names that do not fit in the line width */
extern crate a_crate_with_an_extraordinarily_long_name_that_nobody_would_ever_publish_on_a_registry_because_it_is_silly;
/* iex020 a long alias as well */
extern crate another_crate_with_an_extraordinarily_long_name_that_nobody_would_publish as an_alias_that_is_also_extraordinarily_long_for_no_reason;
pub(in crate::a_module_with_a_long_name::another_module_with_a_long_name) extern crate long_visibility_and_long_name as long_alias_for_it;

// iex009 declarations mixed with use declarations and other items
extern crate b_crate;
use b_crate::thing;
extern crate a_crate;
use a_crate::other;
extern crate d_crate; extern crate c_crate; extern crate e_crate as e;
mod between_the_crates {}
extern crate g_crate;
/* iex010 a comment between two declarations of the same group */
extern crate f_crate;
static BETWEEN: u8 = 0;
extern crate i_crate;

extern crate h_crate;

// iex011 declarations inside function bodies, blocks and inline modules
fn function_with_extern_crates() {
    extern crate z_inner;extern crate y_inner as y;
    #[macro_use] extern crate x_inner; // iex012 end of statement line
    let value = 0;
    extern crate w_inner;
    /* iex013 before a block */
    { extern crate v_inner; extern crate u_inner as _; }
}
mod module_with_extern_crates { extern crate n_crate; pub extern crate m_crate as m; #[macro_use] extern crate l_crate; }
// iex021 other items that start with the same keyword
extern "C" { fn not_an_extern_crate(); }
extern "C" fn also_not_an_extern_crate() {}
