// rustfmt-edition: 2021
// Extra corpus (written for the checks, not taken from rustfmt): use declarations with `as` aliases, underscore aliases, aliases of self, raw and unicode alias names, and re-exports with every kind of visibility.

// ial001 plain aliases written with odd spacing
use a as b;
use   a   as   b  ;
use a::b as c;
use a::b
    as
    c; // ial015 the alias was broken over three lines
use ::a::b as c;
use a::{b as c};
use a::{b as c,};
use a::{b as c,d as e};
use a :: { b   as   c , d , e as f , } ;
/* ial002 alias of self inside a list */
use a::{self as me};
use a::b::{self as b_module,c as sea,d};
use crate::{self as krate,thing as other_thing};
use super::{self as parent};
use super::super::sibling as cousin; /* ial016 two levels up */
use self::child as kid;

// ial003 underscore aliases for traits brought into scope anonymously
use std::io::Read as _;
use std::io::{Write as _};
use std::io::{BufRead as _,Seek as _,Write as _,Read as _};
use std::fmt::{Write as _,Debug,Display as _};
// ial017 a long list of anonymous imports
use core::ops::{Add as _,Sub as _,Mul as _,Div as _,Rem as _,Neg as _,Not as _,BitAnd as _,BitOr as _,BitXor as _,Shl as _,Shr as _};
use a::b::c::{d::{e::F as _,g::H as _},i::J as _};
use self::Trait as _; // ial004 trailing comment after an anonymous import
use crate::prelude::Extension as _; /* ial005 trailing block comment */

// ial006 aliases that only differ by case from the original name and aliases that swap names
use a::b as B;
use a::{c as C,d as D,D as d};
use a::{x as y,y as x}; // ial018 two names swapped
use a::{b as z,c as y,d as x,e as w};
use a::{z as b,y as c,x as d,w as e};

/* ial007 long names that push the alias past the line width */
use a_rather_long_crate_name::a_rather_long_module_name::a_second_rather_long_module_name::Item as AnAliasForThatItem;
use a_rather_long_crate_name::a_rather_long_module_name::{a_second_rather_long_module_name::Item as AnAliasForThatItem,OtherItem as AnAliasForTheOtherItem};
use a_rather_long_crate_name::{first_item_with_a_long_name as first_alias_with_a_long_name,second_item_with_a_long_name as second_alias_with_a_long_name,third_item_with_a_long_name as _};
/* ial019 long names inside a nested list */
use x::{aaaaaaaaaaaaaaaaaaaaaaaaaaaa as bbbbbbbbbbbbbbbbbbbbbbbbbbbbbbbb,cccccccccccccccccccccccccccc::{dddddddddddddddddddddd as eeeeeeeeeeeeeeeeeeeeeeeee,fffffffffffffffffffff as _}};

// ial008 raw identifiers and unicode names as aliases
use a::r#type as r#struct;
use a::{r#fn as function,function as r#fn,r#match as _};
use r#mod as module;
use r#try::r#use as r#as;
// ial020 names outside ascii
use a::{größe as size,size as größe};
use a::名前 as name;
use a::{name as 名前,αβγ as abc,abc as αβγ};
use a::_private as __also_private;
use a::__ as ___;

/* ial009 re-exports with an alias and every kind of visibility */
pub use a::b as c;
pub   use   a :: { b as c , d as _ } ;
pub(crate) use a::b as c;
pub ( crate ) use a::{b as c};
pub(super) use a::b as c;
pub(self) use a::b as c; /* ial021 visible in self only */
pub(in crate::some::module) use a::b as c;
pub(in super::super) use a::{b as c,d::{e as f}};
pub ( in   self :: inner ) use a :: b   as   c ;
pub(in absolute::path) use a::b as _;
pub(in crate::a) use a::*;
pub use self::inner::{Exported as PublicName,hidden as _};
crate_visibility_is_gone::marker!();
pub(crate) use self::inner::*; // ial010 a glob re-export after a macro call item

// ial011 attributes and doc comments on aliased imports
#[cfg(unix)] use std::os::unix::ffi::OsStrExt as _;
#[cfg(windows)]use std::os::windows::ffi::OsStrExt as _;
#[allow(unused_imports)]#[doc(hidden)]pub use a::b as c;
#[cfg_attr(feature="a-feature-with-a-long-name",doc="some documentation given through an attribute")] pub use a::documented as Documented;
// ial022 documentation in its three spellings
/// A documentation comment on a re-export.
pub use a::b as documented_alias;
/** A block documentation comment on a re-export. */
pub(crate) use a::b as block_documented_alias;
#[doc = "an attribute that is documentation"] pub use a::b as attribute_documented_alias;

/* ial012 aliases inside function bodies, blocks and inline modules */
fn function_with_aliased_imports() {
    use a::b as c;use d::e as f;
    use std::io::Write as _; // ial013 end of a statement line
    let x = 1;
    pub(crate) use g::{h as i,j as _};
    /* ial014 before a nested block */
    { use z as a;use y as b;use x as c; }
    loop { use only::inside::the_loop as looped; break; }
}
mod aliases_in_module { pub(super) use super::a as b;pub(in super::super) use super::c as _;use self::x as y; }
unsafe fn unsafe_function_with_import() { use core::ptr::read as read_pointer; }
const _: () = { use core::mem::size_of as sz;use core::mem::align_of as al; };
