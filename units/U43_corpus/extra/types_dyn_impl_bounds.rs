// rustfmt-edition: 2021
// Extra corpus (written for the checks, not taken from rustfmt): dyn Trait and impl Trait types with bound lists, ?Sized and other modifiers, parenthesised bounds, higher ranked trait bounds.

// dib001 object types in aliases
type D1=dyn Tr;
type D2 = dyn   Tr+Send ;
type D3=dyn Tr+Send+Sync+'static;
type D4<'a>=dyn 'a+Tr;
type D5=Box<dyn Fn(u8)->u8+Send+Sync+'static>;
type D6<'a> = & 'a ( dyn Tr + 'a ) ;
type D7=dyn(Tr)+(Send)+(Sync);   // dib002 parenthesised bounds
type D8=dyn for<'a>Fn(&'a u8)->&'a u8;
type D9 = dyn for < 'a , 'b > FnMut ( & 'a u8 , & 'b u8 ) -> & 'b u8 + Send ;
type D10=dyn(for<'a>Tr<'a>)+Send;
type D11=Box<dyn ?Sized>;
type D12=dyn ::core::fmt::Debug+::core::marker::Send;
type D13=dyn Iterator<Item=Box<dyn Iterator<Item=Box<dyn Iterator<Item=u8>+Send>>+Send>>+Send;
/* dib003 a long object type that has to be broken at the plus signs */
type VeryLongObjectAlias<'lifetime> = Box<dyn for<'other> SomeVeryLongTraitNameNumberOne<'lifetime, 'other, Output = SomeVeryLongTypeNameNumberOne> + SomeVeryLongTraitNameNumberTwo + Send + Sync + 'lifetime>;

// dib004 impl trait in argument and return position
fn i1(x:impl Tr){}
fn i2(x : impl   Tr+Send , y:&impl Tr,z:&mut(impl Tr+?Sized))->impl Tr+Send{x}
fn i3<'a>(x:&'a u8)->impl Iterator<Item=&'a u8>+'a{core::iter::once(x)}
fn i4()->impl for<'a>Fn(&'a u8)->&'a u8{|x|x}
fn i5()->impl Fn()->impl Fn()->impl Fn()->u8{||||||0}
fn i6()->Box<impl Sized>{Box::new(())}
fn i7()->impl Sized+use<>{}
fn i8<'a,T>(x:&'a T)->impl Sized+use<'a,T,>{x}
fn i9(x:impl?Sized+Tr,/* dib005 between impl parameters */y:impl(Tr)+(Send))->(impl Tr,impl Send,){(x,y)}
fn i10(first_parameter_name: impl SomeVeryLongTraitNameNumberOne<Output = SomeVeryLongTypeNameNumberOne> + Send, second_parameter_name: &mut (impl SomeVeryLongTraitNameNumberTwo + ?Sized)) -> impl Iterator<Item = impl SomeVeryLongTraitNameNumberOne<Output = impl SomeVeryLongTraitNameNumberTwo + Send> + Sync> + Send { loop{} }

// dib006 bounds on generic parameters
fn b1<T:Tr>(){}
fn b2<T : Tr + Send , U:?Sized+Tr,V:'static+Tr+?Sized,>(){}
fn b3<T:for<'a>Tr<'a>+for<'a,'b>Tr2<'a,'b>>(){}
fn b4<'a,'b:'a,'c:'a+'b,T:'a+'b+'c>(){}
fn b5<T:Tr,>(){}
fn b6<T:(Tr)+(?Sized)+(for<'a>Tr<'a>)>(){}
fn b7<T:~const Tr+const Tr2>(){}
fn b9<T:!Tr+?Tr2+?Sized>(x:impl async Fn()->u8,y:(impl Tr),z:&(((dyn Tr+Send))))->(impl Sized){}
type B10=impl Tr+Send;
fn b8<F:for<'a>Fn(&'a u8,&'a u16)->&'a u8+Send+'static>(f:F,/* dib007 after the only parameter */){}

/* dib008 where clauses with every kind of predicate */
fn w1<T>()where T:Tr{}
fn w2<'a,T,U>()where T:Tr+Send,U:?Sized,'a:'static,for<'x>&'x T:Tr,for<'x>T:Tr<'x>,T:for<'x>Tr<'x>,{}
fn w3<T>()where T:, {}
// dib009 remark before a function with many predicates
fn w4<T>()where
    T:Tr,
    Vec<T>:Tr,
    [T;3]:Tr,(T,):Tr,<T as Tr>::Assoc:Tr,
{} /* dib010 remark after the braces */
fn w5<'first_lifetime, SomeVeryLongTypeParameterName, AnotherVeryLongTypeParameterName>() where for<'higher_ranked> SomeVeryLongTypeParameterName: SomeVeryLongTraitNameNumberOne<'higher_ranked, Output = AnotherVeryLongTypeParameterName> + for<'other> SomeVeryLongTraitNameNumberTwo<'other, 'higher_ranked> + Send + Sync + 'first_lifetime {}

struct S<'a,T:?Sized+'a,F=dyn Fn()+'a>where F:?Sized{
    a:Box<dyn Tr+'a>, // dib011 a boxed object field
    /* dib012 before the callback field */
    b : & 'a mut ( dyn for<'x> FnMut ( & 'x T ) -> bool + Send + 'a ) ,
    c:PhantomData<(Box<F>,&'a T)>,
    d:Rc<RefCell<dyn Any+Send+Sync>>,
}

trait Tr2<'a>:Tr+Send+for<'b>Tr3<'a,'b>+'a where Self:Sized+'a{
    type A:Tr+?Sized+'a;
    // dib013 between associated types
    type B<'x,T:'x+?Sized>:for<'y>Tr3<'x,'y>+'x where Self:'x,T:Tr;
    fn f(&self)->Box<dyn Tr+'_>;
    fn g<'s>(&'s self)->impl Iterator<Item=&'s u8>+'s;
}

impl<'a,T:?Sized+Tr+'a>Tr2<'a>for Box<T>where Box<T>:Tr,for<'x>&'x T:Send{}
impl dyn Tr+Send+'_{}
impl<'a>dyn Tr+'a{fn m(&self){}}

fn body(){
    let a:Box<dyn Tr>=Box::new(());
    let b : & ( dyn   Tr + Send ) = & ( ) ; // dib014 a reference to an object
    let c=&x as&dyn Tr;
    /* dib015 casts to objects */
    let d=Box::new(x)as Box<dyn Tr+Send+Sync+'static>;
    let e=x as*const(dyn Tr+Send)as*const();
    let f:Vec<Box<dyn for<'a>Fn(&'a mut Ctx<'a>)->Pin<Box<dyn Future<Output=Result<(),Box<dyn Error+Send+Sync>>>+Send+'a>>+Send+Sync>>=Vec::new();
    let g=<dyn Tr>::m(&*a);
    let h=<dyn Tr+Send as Tr2>::f(&*a); // dib016 qualified path on an object
    let i:&dyn Any=&0u8;
    let j = size_of::<Box<dyn   Fn ( ) -> Box<dyn   Fn ( ) -> Box<dyn Fn()>>>>();
}

static T1:&(dyn Tr+Sync)=&();
/* dib017 last remark */
const T2 : & dyn   Fn ( u8 ) -> u8 = & | x | x ;
