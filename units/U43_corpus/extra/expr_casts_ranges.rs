// rustfmt-edition: 2021
// Extra corpus (written for the checks, not taken from rustfmt): cast expressions, type ascription-free casts to complex types, all range forms, ranges inside indexing and calls.

// crg001 simple casts with bad spacing
fn simple_casts(x:i64){
let a=x as u8;let b = x   as   i32   as   u64 ;let c=(x as u8)as char; // crg002 chained casts
let d = ( x ) as ( u8 ) ; let e = (x+1) as u8 ; let f = x+1 as i64 ;
/* crg003 casts with unary operators */
let g = -x as u8 ; let h = (-x) as u8 ; let i = -(x as i8) ; let j = !x as u8 ; let k = *p as usize ; let l = &x as *const i64 ;
    let m = &mut x as *mut i64 as *mut u8 as usize ; // crg004 pointer casts
let n = p as *const [u8;4] ; let o = q as *mut dyn Trait ; let r = f as fn(i32)->i32 ; let s = f as unsafe extern "C" fn(*const u8,...)->i32;
}

// crg005 casts to generic and qualified types
fn generic_casts(){
let a = x as Vec<u8> ; let b = x as <T as Trait>::Assoc ; let c = x as <Vec<T> as IntoIterator>::Item ;
let d = (x as Vec<Vec<Option<u8>>>) ; /* crg006 nested generics, the closing angle brackets run together */
let e = x as &'static str ; let f = x as &'a mut [T] ; let g = x as (u8,u16,) ; let h = x as [u8;N+1] ;
let i = x as _ ; let j = x as *const _ ; let k = x as ! ; // crg007 inferred and never types
let l = x as for<'a> fn(&'a u8)->&'a u8 ; let m = x as dyn Fn(u8)->u8 ; let n = x as impl Sized ;
    let o = x as Box<dyn for<'a> Fn(&'a str)->Box<dyn Iterator<Item=&'a str>+'a>+Send+Sync+'static> ;
let p = some_very_long_expression_name_for_the_value_being_converted.method_call_on_it(argument) as some_module::another_module::VeryLongTypeName<WithGenericArgument>;
}

/* crg008 casts inside other expressions */
fn casts_in_context(){
let a = v[i as usize] ; let b = v[(i as usize)..(j as usize)] ; let c = f(x as u8,y as u16,) ; let d = [x as u8;n as usize] ;
let e = (x as f64).sqrt() as u32 ; let f = x as usize * y as usize + z as usize ; // crg009 cast binds tighter than multiplication
let g = (x as u32) < y ; let h = (x as u32) << y ; let i = x as u32 > y ; let j = x as u32 >> y ;
/* crg010 casts of literals */
let k = 1 as f32 ; let l = 1.5 as u8 ; let m = 'a' as u8 as char ; let n = true as u8 ; let o = b'x' as char ; let p = 0xffu8 as i8 ;
let q = if c {1} else {2} as u8 ; let r = {x} as u8 ; let s = (match x {_=>1}) as u8 ; let t = (|| 1) as fn()->i32 ;
let u = Enum::Variant as isize ; let v = Struct{f:1}.f as u8 ; let w = x? as u8 ; let y = x.await as u8 ; // crg011 postfix then cast
}

// crg012 every range form
fn all_ranges(){
let a=1..2;let b=1..;let c=..2;let d=..;let e=1..=2;let f=..=2; // crg013 six forms on one line
let g = 1 .. 2 ; let h = 1 .. ; let i = .. 2 ; let j = 1 ..= 2 ; let k = ..= 2 ;
let l = (1..2) ; let m = (1)..(2) ; let n = ((1)..(2)) ; /* crg014 parentheses around ranges and bounds */
let o = a+1..b-1 ; let p = (a+1)..(b-1) ; let q = a..b+1 ; let r = -1..-2 ; let s = ..-1 ; let t = ..=-1 ; let u = -1.. ;
    let v = x..y==z ; let w = a||b..c&&d ; // crg015 range is looser than comparison and logical operators
let x = 0.0..1.0 ; let y = 1. ..2. ; let z = 0..=0xff ; let aa = 'a'..='z' ; let ab = b'a'..=b'z' ; let ac = i8::MIN..=i8::MAX ;
let ad = *lo..*hi ; let ae = &a..&b ; let af = lo.x..hi.x ; let ag = f()..g() ; let ah = a[0]..a[1] ; let ai = x as u8..y as u8 ;
}

// crg016 ranges in indexing, calls, loops, matches
fn ranges_in_context(){
let a=&v[..];let b=&v[1..];let c=&v[..2];let d=&v[1..2];let e=&v[1..=2];let f=&v[..=2]; // crg017 slices
let g = &v[ .. ] ; let h = &v[ 1 .. ] ; let i = &mut v [ i + 1 .. j - 1 ] ; let j = &v[i..][..n] ; let k = v[..][..][..].len() ;
for i in 0..10{} for i in (0..10).rev(){} for i in 0..=10{} for i in (0..){} /* crg018 ranges as loop iterators */
for index_with_long_name in starting_position_of_the_scan_with_a_long_name..ending_position_of_the_scan_with_a_long_name+1{}
let l = (0..10).map(|i|i*2).collect::<Vec<_>>() ; let m = f(..) ; let n = f(1..,..2,..=3,) ; let o = (..,..) ; let p = [..,..] ; let q = [..;2] ;
    let r = match x{0..=9=>1,10.. =>2,..=-1=>3,_=>4} ; // crg019 range patterns next to range expressions
let s = Struct{range:1..2,other:..} ; let t = Some(1..) ; let u = (1..2,) ; let v = return 1..2 ; let w = break 'a ..2 ;
let x = very_long_starting_bound_expression_name.with_a_method_call(argument_one)..very_long_ending_bound_expression_name.with_a_method_call(argument_two);
let y = &the_buffer_being_sliced_with_a_long_name[the_start_of_the_slice_with_a_long_name+offset_one..the_end_of_the_slice_with_a_long_name-offset_two];
}

/* crg020 ranges of ranges and odd nesting */
fn nested_ranges(){
let a = (1..2)..(3..4) ; let b = ..(..) ; let c = (..).. ; let d = ..=(..=1) ; let e = (1..)..=(..2) ;
let f = || .. ; let g = || 1.. ; let h = |x| x..x+1 ; // crg021 closures returning ranges
let i = (..).clone() ; let j = (1..2).len() ; let k = (1..=2).contains(&x) ; let l = (a..b).step_by(2).rev().map(|x|x as u8) ;
let m = if (a..b).is_empty(){..}else{..} ; let n = {1..} ; let o = unsafe{..2} ; /* crg022 ranges as block tails */
let p = x as u8..; let q = x as usize..y as usize ; let r = ..x as usize ; let s = ..=x as usize as u64 ;
}
