// rustfmt-edition: 2021
// Extra corpus (written for the checks, not taken from rustfmt): integer literals in base 2, 8, 10 and 16 with every suffix and underscore placement, next to dots, ranges, minus signs and tuple indices.

// int001 decimal with every suffix
const   A:u8=0u8 ;const B : u16 = 65_535_u16;const C:u32=4_294_967_295u32;const D:u64=18_446_744_073_709_551_615_u64;
const E:u128=340_282_366_920_938_463_463_374_607_431_768_211_455u128 ; /* int002 the largest value there is */
const F:usize=0usize;const G:i8=-128i8;const H:i16=- 32_768_i16;const I:i32=-2_147_483_648;const J:i64=-9_223_372_036_854_775_808i64;
const K:i128=-170141183460469231731687303715884105728_i128;const L:isize = -1isize ;
// int003 odd underscores and leading zeros
const UNDERSCORES:[u32;6]=[1_,1__0,1_0_0_0,0_0,007,1_000_____000,];
const HEX:[u64;8]=[0x0,0xff,0xFF,0xDead_Beef,0x_1,0x1_,0xabcdef_ABCDEF,0x7fff_ffff_ffff_ffff_u64];
const HEX_THAT_LOOKS_LIKE_FLOAT : [ u32 ; 4 ] = [ 0xe3 , 0x1e3,0xE_0,0x1f32 ] ; /* int004 no exponent and no suffix in these */
const OCT:[u32;5]=[0o0,0o7,0o777,0o_1_2_3,0o17u32];
const BIN:[u8;6]=[0b0,0b1,0b1111_0000,0b_1,0b1010_1010u8,0b0000_0001_u8];
const HEX_SUFFIXED:(u8,i8,usize,u128)=(0xffu8,0x7fi8,0xdead_usize,0xffff_ffff_ffff_ffff_ffff_ffff_ffff_ffffu128);

fn signs_and_operators(x:i32)->i32{
    // int005 unary minus in every neighbourhood
    let a= -1 ;let b=- 1;let c=-(-1);let d= - - 1;let e=!0;let f=!-1;let g=-!0;
    let h=1- -1;let i=1 - - 1;let j=x- -1 ;let k = 2*-3;let l=x< -1;let m = x>-1&&x<=-0;
    /* int006 shifts and masks */
    let n=1<<2>>3;let o=1u64<<63;let p=!0u32>>1;let q=0xff&0x0f|0b1^0o7;let r = 0x1e+3-0xe ;
    let s=7%3/2*1;let t = &-1;let u=&&1;let v=*&1;let w=& mut 0;
    let casts=1 as u8 as u16 as u32 as u64 as u128 as usize as i8 as i16 as i32 as i64 as i128 as isize as f32 as f64;
    let cast_then_compare=(1 as usize)<2 ; // int007 the parentheses here are needed
    let cast_then_shift = (x as u64) << 32|0xffff_ffff ;
    a+b+c+d+e+f+g+h+i+j+k
}

fn dots_after_integers(t:((u8,u8),(u8,(u8,u8)))){
    // int008 tuple indices look like floats to the lexer
    let a=t.0.0;let b=t.1.1.0;let c=(t.1).0;let d = t . 0 . 1 ;let e=t.1 .1 .1;
    let f=1.max(2);let g = 1u8.pow(2) ;let h=0xffu8.count_ones();let i=1_000.to_string();
    /* int009 ranges */
    let r=(0..10,0..=0xff,..1,..=1,1..,0 .. 1,-1..=-1 , 0u8..=255u8);
    for i in 0..10{ } for j in (0..=10).rev().step_by(2){} for _ in 0..{break;}
    let slices=(&v[1..],&v[..2],&v[1..=2],& v [ 0 ] ,&v[0x0..0x10],&v[..]);
    let idx=v[0][1][2usize];
    let method_on_negative=(-1i32).abs()+-1i32.abs() ; // int010 the second one binds the other way round
}

fn integer_patterns(x:i32,y:u8)->u8{
    match x{ 0=>0, // int011 a single literal
        1|2 | 3=>1,
        -1=>2, - 2 => 3 ,
        i32::MIN..=-3=>4,
        /* int012 half open and hex ranges */
        0x10..=0xff =>5,0o400..=0o777=>6, 0b10_0000_0000..=1023 => 7,
        1024.. => 8 ,
        _=>9 };
    match y{0u8=>0,1_u8..=0x7f_u8 => 1 , b'\x80'..=255=>2}
}

// int013 integers in types and attributes
#[repr(align(16))]#[repr(C,packed(2))] struct Aligned([u8;0x10],[[u16;3];2],[();0]);
struct ConstGeneric<const N:usize,const M:i32=-1>{ a:[u8;N], // int014 after a field
    /* int015 before a field */ b:Inner<3,{1+2},-5> , c : Inner<0xff,{ N },0> }
#[repr(u8)] enum Disc{ Zero=0, One=0x01 , // int016 after a variant
    Two=0b10,Three=0o3,Max=255u8 , /* int017 after a variant too */ }
#[repr(i64)]enum Neg{ Min=-9_223_372_036_854_775_808, MinusOne = -1 , Sum=1+2*3, Shift = 1<<40 }
#[cfg(target_pointer_width="64")] #[rustc_layout_scalar_valid_range_start(1)] #[rustc_layout_scalar_valid_range_end(0xFFFF_FF00)]
struct Niche(u32);

fn long_lists(){
    let primes=[2,3,5,7,11,13,17,19,23,29,31,37,41,43,47,53,59,61,67,71,73,79,83,89,97,101,103,107,109,113,127,131,137,139,149,151,157,163,167,173];
    let table:[u32;8]=[0x0000_0000,0x7707_3096,0xee0e_612c,0x9909_51ba,0x076d_c419,0x706a_f48f,0xe963_a535,0x9e64_95a3];
    // int018 a mixture of widths so that the short-array heuristics give up
    let mixed=[1,22,333,4444,55555,666666,7777777,88888888,999999999,1_000_000_000_000_000_000_000_000u128,0,1,2];
    let nested=[[1,0,0],[0,1,0,],[0,0,1],];let single=[1];let single_tuple=(1,);let unit_like=[0u8;0];
    let sum = 1111111111111111111+2222222222222222222+3333333333333333333+4444444444444444444+5555555555555555555u64;
    let very_long_literal = 0b1111_0000_1111_0000_1111_0000_1111_0000_1111_0000_1111_0000_1111_0000_1111_0000_1111_0000_1111_0000_1111_0000_1111_0000u128;
    call(1,/* int019 between arguments */2 , // int020 at the end of an argument line
        3);
}

fn in_macros_and_odd_places(){
    let v=vec![0u8;1024];let w = vec! [ 1 ,2, 3 ,] ;
    println!("{} {:#x} {:08b}",1,   0xff ,0b1u8);
    // int021 suffixes that only a macro could accept
    custom!(1_custom,2px , 0x10units);
    let r#u8=1u8 ;let i32_=1i32;let _0=0;let _1_=1;
    let in_block={1};let in_parens=((2));let in_closure=||3;let in_if=if true{4}else{5};
    let literal_statement={ 6;7 ; 8 };
    return_value(if x==0{-1}else{1})
}
