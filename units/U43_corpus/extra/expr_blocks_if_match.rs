// rustfmt-edition: 2021
// Extra corpus (written for the checks, not taken from rustfmt): blocks as expressions (plain, unsafe, async, const, labelled), if/else, if let chains of else-if, match, loops used as values.

// blk001 blocks as values
fn block_values(){
let a={1};let b={{1}};let c={};let d = { let x = 1 ; x + 1 } ;let e=unsafe{f()}; // blk002 unsafe block value
let f = unsafe { } ; let g = async { 1 } ; let h = async move { x.await } ; let i = const { 1 + 2 } ; let j = 'label : { break 'label 1 ; } ;
/* blk003 labelled block with several exits */
let k = 'outer:{if a {break 'outer 1;} if b {break 'outer 2} 3} ;
let l = { // blk004 comment right after the opening brace
1 } ;
let m = { 1 /* blk005 comment before the closing brace */ } ;
let n = { #![allow(unused)] 1 } ; let o = #[allow(unused)] { 1 } ; let p = #[cfg(any())] unsafe { 1 } ; // blk006 attributes in and on blocks
let q = {{{{{{1}}}}}} ; let r = {();()} ; let s = {()} ; let t = {1;} ;
let u = { some_function_with_a_long_name(first_argument_with_a_long_name, second_argument_with_a_long_name, third_arg) } ;
}

// blk007 if and else as values
fn if_values(){
let a=if c{1}else{2};let b = if c { 1 } else if d { 2 } else { 3 } ;let c=if c{1}else{if d{2}else{3}}; // blk008 else holding a block holding an if
let d = if let Some(x)=y {x} else {0} ; let e = if let Some(x)=y {x} else if let Ok(z)=w {z} else if c {1} else {2} ;
let f = if let Some(x)=y && x>0 && let Some(z)=w {x+z} else {0} ; /* blk009 let chain condition */
let g = if (c) {1} else {2} ; let h = if ((c)) {1} else {2} ; let i = if (a,b)==(c,d) {1} else {2} ; let j = if {c} {1} else {2} ; let k = if (S{x}).x {1} else {2} ;
let l = if a&&b||c&&!d {1} else {2} ; let m = if a==(b==c) {} ; let n = if x.y().z()?.w {1} else {2} ; let o = if !x {1} else {2} ; let p = if *x {1} else {2} ;
let q = if some_condition_with_a_long_name_number_one && some_condition_with_a_long_name_number_two || some_condition_with_a_long_name_number_three { value_one } else { value_two } ;
let r = if let Some(SomeStructPattern { first_field_name, second_field_name, .. }) = some_expression_being_matched.with_a_method_call(argument) { first_field_name } else { second } ;
// blk010 short if else that fits on one line and long one that does not
let s = if c {aaaaaaaaaaaaaaaaaaaaaaaaaaaaaaaaaaaaaaaaaa} else {bbbbbbbbbbbbbbbbbbbbbbbbbbbbbbbbbbbbbbbbbbbbbbbbbbbbbbbbbbbbbbbbbbbbbbbbbbbbbbbbbbbbbb} ;
let t = if c { 1 } // blk011 comment between the block and else
else { 2 } ;
let u = if c { 1 } /* blk012 block comment before else */ else { 2 } ;
let v = if c { // blk013 comment at the start of the then block
1 } else { /* blk014 comment at the start of the else block */ 2 } ;
f(if c {1} else {2},if d {3} else {4},) ; x.y(if c {1} else {2}).z() ; let w = [if c {1} else {2};if d {3} else {4}] ; let y = (if c {1} else {2},) ;
if c {1} else {2} ; if c {} ; if c {} else {} ; if c {} else if d {} ; // blk015 if as statements with empty blocks
}

// blk016 match as a value
fn match_values(){
let a=match x{_=>1};let b = match x { 1 => a , 2 => b , _ => c , } ;let c=match x{}; // blk017 empty match
let d = match x {1|2|3=>a,4..=6=>b,n if n>6=>c,_=>d} ; let e = match (x,y) {(1,_)|(_,1)=>a,(a,b) if a==b=>b,_=>c} ;
let f = match x {Some(y)=>{y} None=>{0}} ; let g = match x {Some(y)=>{y},None=>{0},} ; /* blk018 block arms with and without commas */
let h = match x { | A | B => 1 , | C => 2 } ; let i = match x {A=>{},B=>(),C=>{()},D=>{{}}} ; // blk019 leading vertical bar
let j = match x {#[cfg(a)] A=>1, #[cfg(not(a))] #[allow(b)] B=>2, _=>3} ;
let k = match x {A=>if c {1} else {2},B=>match y {_=>3},C=>loop{break 4},D=>unsafe{5},E=>||6,F=>return 7,G=>break,H=>continue,} ;
let l = match x {
A=>1, // blk020 trailing comment after a short arm
/* blk021 block comment on its own line before an arm */
B=>2,
// blk022 line comment on its own line before the last arm
_=>3} ;
let m = match some_scrutinee_expression_with_a_long_name.and_a_method_call(argument_number_one, argument_number_two).and_another_call() { SomeEnumeration::FirstVariantWithLongName { first_field, second_field } | SomeEnumeration::SecondVariantWithLongName { first_field, second_field } if first_field > second_field && second_field > some_lower_bound_with_long_name => first_field - second_field, SomeEnumeration::Third(inner_value) => some_function_with_a_long_name(inner_value, another_argument_with_a_long_name, yet_another_argument_long_name), _ => unreachable!("this cannot happen because of the invariant"), } ;
let n = match x {ref a @ Some(_)=>a,ref mut b @ None=>b} ; let o = match *x {box_pattern=>1} ; let p = match &x[..] {[]=>0,[a]=>1,[a,..,b]=>2,[a,rest@..]=>3} ;
let q = match x {Struct{a:1,b:Inner{c,..},..}=>c,Struct{..}=>0} ; let r = match x {Tuple(1,..)=>1,Tuple(..,2)=>2,Tuple(..)=>3} ; // blk023 struct and tuple patterns
let s = match x {'a'..='z'|'A'..='Z'=>1,'\u{0}'=>2,_=>3} ; let t = match x {-1=>a,0=>b,1=>c,i32::MIN..=-2|2..=i32::MAX=>d} ; let u = match x {"é"=>1,r"raw"=>2,_=>3} ;
f(match x {_=>1}) ; x.y(match z {_=>1}).w() ; let v = (match x {_=>1})+(match y {_=>2}) ; let w = match match x {_=>1} {_=>2} ; /* blk024 match of a match */
}

// blk025 loops as values and statements
fn loop_values(){
let a=loop{break 1};let b = 'l : loop { break 'l 2 ; } ;let c=loop{if x {break} else {continue}}; // blk026 break and continue without values
let d = while x {} ; let e = while let Some(y)=z.pop() {y;} ; let f = 'w : while x {break 'w} ; let g = for i in 0..1 {} ; let h = 'f : for (i,j) in x.iter().enumerate() {continue 'f} ;
'a:loop{'b:loop{'c:loop{break 'a}}} /* blk027 nested labelled loops as a statement */
while let Some(SomeStructPattern { first_field_name, second_field_name }) = some_iterator_with_a_long_name.next_element_with_a_long_method_name() { first_field_name ; }
for SomeStructPattern { first_field_name, second_field_name } in some_collection_with_a_long_name.iter().filter(|element| element.is_interesting()).rev() {}
let i = loop { break loop { break loop { break 1 } } } ; let j = 'r#label : loop { break 'r#label } ; // blk028 raw label
while a&&b||c {} while (a) {} for x in (y) {} for _ in [1,2,3] {} for (a,b) in [(1,2)] {} for &x in &y {} for mut x in y {} loop{}
}
