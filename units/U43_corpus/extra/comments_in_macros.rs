// Extra corpus of U46 (written for the check, not taken from rustfmt): comments inside macro calls. Every comment holds a unique word.
#[macro_use]
extern crate lazy_static;

lazy_static! {
    // cma001 before the first static
    static ref FIRST: u32 = 1; // cma002 behind the first static
    /* cma003 block between statics */
    static ref SECOND: Vec<u32> = vec![1, 2, 3];
    // cma004 behind the last static
}

fn in_body() {
    lazy_static! {
        static ref INNER: u32 = 7; // cma005 inner trailing
        // cma006 inner own line
        static ref OTHER: u32 = 8;
    }
    let v = vec![
        1, // cma007 first element
        2, /* cma008 second element */
        3,
        // cma009 behind the last element
    ];
    let w = vec![0u8; /* cma010 repeat */ 16];
    println!(
        "{} {}", // cma011 behind the format string
        v.len(), /* cma012 first argument */
        w.len()  // cma013 last argument
    );
    let m = matches!(v.len(), 0 /* cma014 zero */ | 1 /* cma015 one */);
    assert!(m /* cma016 condition */, "cma-not-a-comment {}", 1);
    assert_eq!(
        v.len(), // cma017 left
        3        // cma018 right
    );
    foo! { a /* cma019 inside braces */ b }
    bar!(/* cma020 only a comment */);
    baz![x, /* cma021 in brackets */ y];
    let s = format!("{}", /* cma022 before arg */ 5);
    write!(out, "{}", 1 /* cma023 in write */).unwrap();
}

macro_rules! with_comments {
    // cma024 before the first rule
    ($a:expr) => {
        // cma025 inside the body
        $a + 1 /* cma026 behind the expression */
    };
    // cma027 between rules
    ($a:expr, $b:expr) => {{
        let x = $a; // cma028 trailing in body
        x + $b
    }};
}

cfg_if::cfg_if! {
    // cma029 before the first branch
    if #[cfg(unix)] {
        fn os() {} // cma030 in the unix branch
    } else {
        // cma031 in the else branch
        fn os() {}
    }
}

thread_local! {
    // cma032 in thread_local
    static TL: u32 = 1; // cma033 trailing in thread_local
}
