// Extra corpus of U46 (written for the check, not taken from rustfmt): comments inside items. Every comment holds a unique word.
fn params(
    a: u32, // cit001 behind a parameter
    /* cit002 before a parameter */ b: u32,
    c: /* cit003 before a parameter type */ u32,
) -> /* cit004 before the return type */ u32 {
    a + b + c
}

fn generics<T /* cit005 behind a type parameter */, U: Clone /* cit006 behind a bound */>(t: T, u: U)
where
    T: Copy, // cit007 behind a where predicate
    /* cit008 before a where predicate */ U: Default,
{
}

pub /* cit009 behind pub */ fn vis() {}

fn /* cit010 behind fn */ named() {}

fn before_body() /* cit011 before a body */ {}

struct Fields {
    a: u32, // cit012 behind a field
    /* cit013 before a field */
    b: u32,
    c: u32, /* cit014 block behind a field */
    // cit015 behind the last field
}

struct Tuple(u32 /* cit016 in a tuple struct */, u32);

struct Unit /* cit017 behind a unit struct name */;

enum Variants {
    A, // cit018 behind a variant
    /* cit019 before a variant */
    B(u32 /* cit020 in a tuple variant */),
    C {
        x: u32, // cit021 in a struct variant
    },
    D = 4, /* cit022 behind a discriminant */
    // cit023 behind the last variant
}

impl /* cit024 behind impl */ Fields {
    // cit025 first line of an impl
    fn method(&self /* cit026 behind self */) {}

    // cit027 between methods
    const K: u32 = 1; // cit028 behind an associated const
}

impl<T> Trait for /* cit029 behind for */ Wrapper<T> where T: Copy /* cit030 in an impl where */ {
    type Out = T; // cit031 behind an associated type
}

trait Trait: Sized /* cit032 behind a supertrait */ {
    // cit033 first line of a trait
    type Out; // cit034 behind a trait type
    fn required(&self); // cit035 behind a required method
    /* cit036 before a provided method */
    fn provided(&self) {}
}

use std::{
    fmt, // cit037 in a use list
    /* cit038 before a use element */ io,
};

extern "C" {
    // cit039 first line of an extern block
    fn ext(a: u32 /* cit040 in an extern fn */) -> u32; // cit041 behind an extern fn
    static EXT: u32; /* cit042 behind an extern static */
}

type Alias /* cit043 behind an alias name */ = u32; // cit044 behind an alias
type Gen<T> = Vec<T /* cit045 inside alias generics */>;

const C: u32 = /* cit046 behind a const equals */ 1;
static S: &str = "cit-not-a-comment"; // cit047 behind a static

#[derive(Debug)] // cit048 behind an attribute
/* cit049 between attribute and item */
struct Attributed;

#[cfg(test)]
mod tests {
    // cit050 first line of a module
    use super::*; // cit051 behind a use in a module

    #[test] // cit052 behind a test attribute
    fn t() {}
    // cit053 last line of a module
}

union U {
    a: u32, // cit054 in a union
    b: f32,
}

fn type_positions(a: &/* cit055 in a reference type */ u32, b: [u32; 4 /* cit056 in an array type */], c: (u32, /* cit057 in a tuple type */ u32), d: fn(u32 /* cit058 in a fn pointer */) -> u32, e: Box<dyn Fn() /* cit059 in a dyn type */>, f: impl Copy /* cit060 behind impl trait */) {}
