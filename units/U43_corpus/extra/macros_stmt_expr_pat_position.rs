// rustfmt-edition: 2021
// Extra corpus (written for the checks, not taken from rustfmt): macro calls in statement, expression and pattern position with all three delimiters.

fn statements(){
    // mse001 paren statement
    do_it  !  (  a,b  ,c ) ;
    /* mse002 bracket statement */
    do_it![a ,b, c];
    // mse003 brace statement without a semicolon
    do_it!{a,b,c}
    do_it!{a,b,c};
    /* mse004 empty calls as statements */
    nothing!();nothing![];nothing!{}
    let x=compute!(1+2,3*4) ; // mse005 trailing after a let
    let y:Vec<u8> =collect![1,2,3,];
    let z = build!{ name : "n" , value:3 };
    // mse006 long arguments that must be broken over several lines
    let long=compute!(first_argument_with_a_long_name+second_argument_with_a_long_name,third_argument_with_a_long_name*fourth_argument);
    a_quite_long_macro_name_for_a_statement!(argument_number_one,argument_number_two,argument_number_three,argument_number_four);
    #[allow(unused)] attributed_statement!(1,2);
    #[cfg(debug_assertions)] let w=attributed_let!{ 1 };
}

fn expressions()->u32{
    // mse007 as operand of binary and unary operators
    let a=one!()+two![]*three!{};
    let b= -neg!(1) ; let c= !not![true]; let d= *deref!{p};
    /* mse008 with method calls and fields and try and await */
    let e=make!(1).method().field.other();
    let f=fallible!(x)?.next()?;
    let g=future!{ y }.await;
    let h=index![1,2,3][0] ;
    // mse009 as argument of a call and of a method call
    call(arg!(1),arg![2],arg!{3},);
    receiver.method(arg!(a_long_argument_name_number_one,a_long_argument_name_number_two),arg!(a_long_argument_name_number_three));
    /* mse010 in control flow heads */
    if cond!(a,b){yes!()}else{no!()}
    while go_on!{}{ step!(); }
    for i in range!(0,10){ body!(i) }
    match scrutinee!(v){ _=>arm!() , }
    // mse011 in struct literals, arrays, tuples, ranges, casts, references
    let s=S{a:field!(1),b:field![2],..rest!()};
    let t=(tup!(1),tup!(2),);
    let arr=[el!(1);len!()];
    let r=lo!()..=hi!();
    let k=val!(3) as u8;
    let m=&mut place!(x);
    /* mse012 in closures and blocks and returns */
    let cl=|x|inner!(x);
    let cl2=move|x:u8|->u8{inner!(x)};
    let bl=unsafe{danger!()};
    let ab=async move{ fut!().await };
    'label:loop{ break 'label brk!(1); }
    if false{return ret!(0);}
    // mse013 assignment and compound assignment
    x=assign!(1);
    x+=assign!(2) ; x<<=assign![3];
    place!(x)=4;
    /* mse014 parenthesized and nested in parentheses */
    let p=((paren!(1)));
    let q=(paren!(1)+paren!(2))*paren!(3);
    // mse015 let else and if let with macros
    let Some(v)=opt!(x) else{ bail!("no value") };
    if let Ok(v)=res!(x){ use_it!(v) }
    /* mse016 the tail expression is a macro call */
    tail!(a,b)
}

fn tails_one()->u8{ tail!{a} }
fn tails_two()->u8{ tail![a] }
fn tails_three(){ tail!(a); }

fn odd_spacing(){
    // mse017 space between name, bang and delimiter
    spaced   !   ( 1 , 2 );
    spaced !
    [ 1 ,
      2 ];
    std :: println ! ( "{}" , 1 ) ;
    /* mse018 paths with generics like segments and self super crate */
    self::m!(1); super::m!(2); crate::m!(3); ::core::m!(4); a::b::c::d::e::f::m!(5);
    // mse019 unicode and raw identifiers as macro names and arguments
    r#macro!(r#type,r#fn);
    größe!(länge,"ß→ü") ;
    /* mse020 chained macro calls in one long binary expression that has to be broken over lines */
    let total=first_summand!(alpha,beta)+second_summand!(gamma,delta)+third_summand!(epsilon,zeta)+fourth!(eta);
    let v = match x { 1 => one!(),
 /* mse021 between arms */ 2 => two!{}, _ => many![x;3] };
}

fn patterns(v:u8,o:Option<u8>){
    // mse022 patterns in match arms
    match v{ pat!(1)=>one(), pat![2]=>two(), pat!{3}=>three(),
        /* mse023 alternation of macro patterns */
        pat!(4)|pat!(5)|pat!(6)=>many(),
        (pat!(7),pat!(8),)=>range(),
        n@pat!(10)=>bound(n),
        pat!(11) if guard!(v)=>guarded(), // mse024 trailing after an arm with guard
        _=>other(),
    }
    /* mse025 nested in tuple, struct, slice, reference and box patterns */
    match (o,v){ (Some(inner!(1)),_)=>a(), (None,inner![2])=>b(), _=>c() }
    match s{ S{a:fp!(1),b:fp![2],..}=>a(), T(tp!(1),tp!{2})=>b(), [sp!(1),..,sp!(2)]=>c(), &rp!(1)=>d(), }
    // mse026 let, if let, while let, for and function parameters
    let lp!(a,b)=pair();
    let (lp![c],lp!{d})=pair() ;
    if let ip!(Some(x))=o{ }
    while let wp!(Some(y))=next(){ }
    for fp!(i,j) in pairs(){ }
    let closure=|cp!(x),cp![y]|x+y;
    /* mse027 let else with a macro pattern */
    let ep!(z)=o else{return};
    // mse028 matches! with patterns and guards
    let m=matches!(o,Some(1|2|3)|None);
    let n=matches!(v,0..=9 if v%2==0);
    let long=matches!(some_long_scrutinee_expression.with_a_method_call(),SomeLongEnumName::SomeLongVariantName{field_one,..}|SomeLongEnumName::Other(_) if field_one>10);
}

fn param_patterns(pp!(a):u8,pp![b]:u16,(pp!{c},_):(u32,u32)){}

/* mse029 a very long macro pattern that does not fit */
fn long_pattern(){
    match value{ a_macro_name_that_is_long_enough!(with_an_argument_that_is_long_too,and_another_one_that_is_long_as_well,and_a_third)=>(), _=>() }
}
