// rustfmt-edition: 2021
// Extra corpus (written for the checks, not taken from rustfmt): a float literal ending in a bare dot followed by a field access or await (`1. .foo`), and a range whose left side is a borrow of such a literal (`&1. ..`).

// fdx001 a named field after the bare dot
fn named_field(){ let a=1. .foo; }

fn field_then_method(){
    // fdx002 the field access is followed by a call, so that glued together it reads as a range up to the call
    let b = 1. .foo.bar( ) ;
}

fn tuple_index(){
    let c=1. .0; /* fdx003 a tuple index after the bare dot */
}

async fn awaited(){
    // fdx004 await is a field-like postfix too
    let d=1. .await;
}

fn method_call_for_contrast(){
    let e=1. .sqrt(); // fdx005 a method call gets parentheses around the literal
    let f = 2. .powi(2).abs() ;
    let g=(1.).foo;
}

fn borrow_then_open_range(){
    // fdx006 the borrow binds tighter than the range
    let k=&1. ..;
}

fn borrow_then_closed_range(){
    let k2=&1. ..2.; /* fdx007 with an upper bound */
    let k3 = & mut 1. ..=2. ;
}

fn double_borrow_and_raw_borrow(){
    let s=&&1. ..;
    // fdx008 the raw borrow
    let t=&raw const 1. ..;
}

fn borrow_under_other_operators(){
    let v=-&1. ..; /* fdx009 a minus in front of the borrow */
    let w=&-1. ..;
    let y = a+&1. .. ; // fdx010 on the right of a sum
}

fn other_prefixes_for_contrast(){
    // fdx011 these keep their space
    let l=*1. ..;let m=!1. ..;let z=-1. ..;let u=- -1. ..;
    let n=a+1. ..b;let o=a*1. ..;let r=a<<1. ..=b;
    call(1. ..,/* fdx012 between arguments */1. ..2.);
}
