// rustfmt-edition: 2021
// rustfmt-format_macro_matchers: true
// Extra corpus (written for the checks, not taken from rustfmt): macro_rules matchers with repetitions, formatted because of format_macro_matchers: all three operators, many separators, nested repetitions, in the matcher only and in both matcher and transcriber.

// mrr001 repetitions only in the matcher, so that the arm can still be formatted
macro_rules! m_star{ ($($x:expr),*)=>{ f(1,2) }; }
macro_rules! m_plus{ ($($x:expr),+)=>{ f(1,2) }; }
macro_rules! m_question{ ($($x:expr)?)=>{ f(1,2) }; }
macro_rules! m_trailing{ ($($x:expr),* $(,)?)=>{ f(1,2) }; }
macro_rules! m_no_separator{ ($($x:tt)*)=>{ f(1,2) }; }
/* mrr002 unusual separators in the matcher */
macro_rules! m_semicolon{ ($($x:expr);*)=>{ g() }; }
macro_rules! m_fat_arrow{ ($($x:ident)=>*)=>{ g() }; }
macro_rules! m_pipe{ ($($x:pat_param)|+)=>{ g() }; }
macro_rules! m_word{ ($($x:ident)and+)=>{ g() }; }
macro_rules! m_dots{ ($($x:ident)..*)=>{ g() }; }
macro_rules! m_colons{ ($($x:ident)::+)=>{ g() }; }
// mrr003 nested repetitions in the matcher
macro_rules! m_nested{ ($($name:ident:[$($elem:expr),*]);* $(;)?)=>{ h(  ) }; }
macro_rules! m_nested_three{ ($($outer:ident{$($inner:ident($($arg:ty),*)),*})*)=>{ h(  ) }; }
macro_rules! m_spaced{ ( $ ( $ x : expr ) , * ; $ ( $ y : ident ) + )=>{ h(  ) }; }
/* mrr004 several arms with repetitions in the matchers only */
macro_rules! m_several{
    ()=>{ 0 };
    ($head:expr $(,$tail:expr)*)=>{ 1 };
    ($($k:expr=>$v:expr),+ $(,)?)=>{ 2 };
    ($(#[$m:meta])* $v:vis fn $n:ident($($a:ident:$t:ty),*) $(->$r:ty)? $b:block)=>{ 3 };
    ($(#[$m:meta])* $v:vis struct $n:ident<$($l:lifetime),* $(,)? $($g:ident $(:$bound:path)?),*>{$($f:ident:$t:ty),* $(,)?})=>{ 4 };
}

// mrr015 matchers with nested delimiters, literal tokens, keywords, lifetimes and literals between the metavariables
macro_rules! m_delims{ ([$a:expr;$n:literal],{$($k:ident:$v:ty),*},($($t:tt)*))=>{ k() }; }
macro_rules! m_literal_tokens{ (impl<$($l:lifetime),*> $tr:path where 'static:$($b:lifetime)+* , "str" 1.5e3 b'x' r#"raw"# -> => <- .. ... ..= :: # ! ? ~ @ ^ %)=>{ k() }; }
macro_rules! m_empty_groups{ (()[]{} $() * $(,)? $($($($x:tt)*)*)*)=>{ k() }; }
/* mrr016 matchers in the other delimiters and with odd spacing around the fragment specifier */
macro_rules! m_bracket_matcher{ [$ a :expr , $ ( $ b : ident ) ; * ]=>{ k() }; }
macro_rules! m_brace_matcher{ {$a:expr=>$($b:ident),+}=>{ k() }; }
macro_rules! m_only_tokens{ (a b c , d ; e=>f)=>{ k() }; }

// mrr005 repetitions in the transcriber as well, one definition each
macro_rules! t_star{ ($($x:expr),*)=>{ [$($x),*] }; }
macro_rules! t_plus{ ($($x:expr),+)=>{ [$($x),+] }; }
macro_rules! t_trailing{ ($($x:expr),* $(,)?)=>{ vec![$($x,)*] }; }
macro_rules! t_statements{ ($($x:expr);*)=>{ $($x;)* }; }
macro_rules! t_tokens{ ($($x:tt)*)=>{ $($x)* }; }
macro_rules! t_question{ ($($x:ident)?)=>{ $($x)? }; }
macro_rules! t_sum{ ($($x:expr),*)=>{ 0 $(+$x)* }; }
/* mrr006 a map literal macro and a counting macro */
macro_rules! t_map{ ($($k:expr=>$v:expr),* $(,)*)=>{{ let mut m=::std::collections::HashMap::new(); $(m.insert($k,$v);)* m }}; }
macro_rules! t_count{ ()=>{ 0usize }; ($head:tt $($tail:tt)*)=>{ 1usize+t_count!($($tail)*) }; }
macro_rules! t_replace{ ($_t:tt $sub:expr)=>{ $sub }; }
macro_rules! t_count_tts{ ($($tts:tt)*)=>{ 0usize $(+t_replace!($tts 1usize))* }; }

// mrr007 nested repetitions in the transcriber
macro_rules! t_nested{ ($($name:ident:[$($elem:expr),*]);* $(;)?)=>{ $(let $name=[$($elem),*];)* }; }
macro_rules! t_enums{ ($($outer:ident{$($inner:ident($($arg:ty),*)),*})*)=>{ $(enum $outer{$($inner($($arg),*)),*})* }; }
macro_rules! t_matrix{ ($([$($x:expr),*]),*)=>{ [$([$($x),*]),*] }; }

/* mrr008 repetitions that generate items */
macro_rules! t_impls{ ($($t:ty),*)=>{ $(impl Trait for $t{ fn method(&self)->usize{ ::core::mem::size_of::<$t>() } })* }; }
macro_rules! t_struct{ ($(#[$m:meta])* $v:vis struct $n:ident{$($(#[$fm:meta])* $fv:vis $f:ident:$t:ty),* $(,)?})=>{ $(#[$m])* $v struct $n{$($(#[$fm])* $fv $f:$t),*} }; }
macro_rules! t_tuples{ ($($n:ident),+)=>{ impl<$($n:Trait),+> Trait for ($($n,)+){ fn method(&self){ let ($($n,)+)=self; $($n.method();)+ } } }; }

// mrr009 a tt muncher with internal rules and an accumulator
macro_rules! muncher{
    (@acc [$($acc:tt)*])=>{ [$($acc)*] };
    (@acc [$($acc:tt)*] $head:tt $($tail:tt)*)=>{ muncher!(@acc [$($acc)* $head] $($tail)*) };
    ($($all:tt)*)=>{ muncher!(@acc [] $($all)*) };
}

/* mrr010 a mixture: the first arm can be formatted and the second one cannot */
macro_rules! mixture{ ($a:expr)=>{ $a+1 }; ($($a:expr),+)=>{ $($a+)+ 0 }; }

// mrr011 dollar passed as a token to define a macro with repetitions from a macro
macro_rules! with_dollar{ ($d:tt $name:ident)=>{ macro_rules! $name{ ($d($d x:expr),*)=>{ [$d($d x),*] } } }; }

/* mrr012 a long matcher with repetitions that does not fit in the line, transcriber without repetition */
macro_rules! long_matcher{ ($($first_repeated_metavariable:expr),* ; $($second_repeated_metavariable:ident)=>+ ; $($third_repeated_metavariable:ty)|* ; $last:tt)=>{ some_function_with_a_long_name(first_ordinary_argument,second_ordinary_argument,third_ordinary_argument,4) }; }

// mrr013 definitions with repetitions inside a function body
fn local_definitions(){
    macro_rules! local_rep{ ($($x:expr),*)=>{ [$($x),*] }; }
    let a=local_rep!(1,2,3);
    /* mrr014 between a local definition and another */
    macro_rules! local_matcher_only{ ($($x:expr),*)=>{ [1,2,3] }; }
    let b=local_matcher_only![ a , b , c ];
}
