// rustfmt-edition: 2021
// Extra corpus (written for the checks, not taken from rustfmt): attributes on statements (let, expression, item, macro statements), on expressions of every kind, on match arms, and inner attributes of blocks, loops and matches.
fn statements(){
    #[a]let x=1;
    #[a]#[b]let y:u8=2;
    #[allow(unused_variables)]#[cfg(feature="a-feature-with-a-long-name")]let a_variable_with_a_long_name:std::collections::HashMap<String,Vec<u8>>=std::collections::HashMap::new();
    // ase001 comment between attributed statements
    #[a]let z;
    #[a]let Some(w)=opt else{return};
    #[a]let(p,q)=(1,2); /* ase002 trailing block comment after a let */
    #[a]x;
    #[a]#[b]f(x);
    #[a]x=2;
    #[a]x+=2;
    #[a]x.y.z();
    #[a]mac!(x);
    #[a]mac!{x}
    #[a]mac![x];
    #[allow(unused)]#[inline]fn local(){}
    #[a]struct L;
    #[a]const K:u8=0;
    // ase003 comment before block like statements
    #[a]{x}
    #[a]unsafe{x}
    #[a]loop{break}
    #[a]while x{}
    #[a]for i in 0..1{}
    #[a]match x{_=>{}}
    #[a]'label:loop{break 'label}
    #[a]return;
}
fn blocks(){
    #![a]#![b]
    let x={#![a]1};
    let y=unsafe{#![a]#![b(c="d")]f()};
    /* ase004 block comment between lets */
    let z=#[a]{1};
    let w=#[a]unsafe{#![b]1};
    let g=loop{break #[a]1};
    let h=#[a]while x{x=false;};
    let i={#![allow(unused)]
        // ase005 comment after an inner attribute in a block
        f(i)};
    let a=async{#![a]1};
    let b=async move{#![a]1};
    let c=const{#![a]1};
    let d=#[a]async{1};
    let e=#[a]const{1};
    let f=#[a]'l:{break 'l 1};
    {#![allow(unused_variables)]#![cfg_attr(feature="a-feature-with-a-long-name",deny(warnings,missing_docs,unsafe_code))]let inner=1;}
}
fn expressions(){
    let a=#[a]1;
    let b=#[a]#[b]"s";
    let c=#[a]x;
    let d=#[a]f(x);
    let e=#[a]x.m();
    let f=#[a](1,2);
    let g=#[a][1,2];
    let h=#[a]S{x:1};
    let i=#[a](x);
    let j=#[a]|x|x;
    let k=#[a]move||{1};
    let l=#[a]&x;
    let m=#[a]!x;
    let n=#[a]-x;
    let o=#[a]*x;
    let p=#[a]x?;
    let q=#[a]x.await;
    let r=#[a]x[0];
    let s=#[a]x.0;
    let t=#[a]mac!(x);
    let u=#[a]a::b::c;
    let v=#[a]match x{_=>1};
    let w=#[a]loop{break 1};
    // ase006 comment before attributes inside lists
    let arr=[#[a]1,#[a]#[b]2,#[c(d)]3];
    let tup=(#[a]1,#[b]"two",#[c]3.0);
    let one=(#[a]1,);
    f(#[a]1,#[b]x,#[c]g(#[d]y));
    x.m(#[a]1,#[b]2).n(#[c]3);
    a_function_with_a_long_name(#[allow(unused)]the_first_argument_with_a_long_name,#[cfg(feature="x")]the_second_argument_with_a_long_name,/* ase007 comment between arguments */#[a]the_third);
    let arr=[#[cfg(feature="a")]an_array_element_with_a_long_name,#[cfg(feature="b")]another_array_element_with_a_long_name,#[cfg(feature="c")]the_third_one];
    let par=(#[a]x)+(#[b]y);
    let un=-(#[a]x);
    let cl=|x|#[a]x;
    let cl2=|x|#[a]{x;y};
    return #[a]x;
}
fn arms(){
    match x{#[a]0=>1,#[a]#[b]1=>2,#[c(d="e")]2|3=>{4}#[a]_ if g=>5,#[a]_=>6}
    match x{
        #![a]
        #![b]
        // ase008 comment after the inner attributes of a match
        #[a]A=>1, // ase009 trailing comment after an arm
        #[a]
        #[b]
        B=>2,
        /* ase010 block comment between arms */
        #[cfg(feature="a-feature-with-a-long-name")]#[allow(unreachable_patterns)]C|D|E if a_guard_with_a_long_name(x)=>a_function_with_a_long_name(the_first_argument_with_a_long_name),
        #[a]F=>#[b]{1}
        #[a]G=>#[b]f(),
        #[a]H=>{#![b]1}
        #[a]_=>#[b]#[c]1,
    }
    match x{#![allow(unused)]_=>{}}
    let v=match #[a]x{#[b]y=>#[c]y};
    let s=S{x:#[a]1,y:#[b]f(#[c]2)};
    let idx=x[#[a]0];
    let rng=#[a]0..#[b]1;
    let cast=#[a]x as u8;
    let bin=#[a]x+y;
    let asg={#[a]x=1;};
    let t=#[a]try{1};
    let y=#[a]yield 1;
}
