// rustfmt-edition: 2021
// Extra corpus (written for the checks, not taken from rustfmt): attribute paths and attribute arguments of every shape (words, paths, key = literal, nested lists, arbitrary token trees, the three delimiters, expressions as values).
#[a]#[a::b]#[::a::b]#[crate::a]#[self::a]#[super::super::a]#[r#a]#[a::r#b::c]fn paths(){}
#[a_tool_with_a_long_name::an_attribute_with_a_long_name::and_one_more_segment::and_still_one_more_segment::end]fn long_path(){}
#[a()]#[a( )]#[a(,)]#[a{}]#[a[]]#[a=1]fn empty(){}
// aar001 key value with every kind of literal
#[a="s"]#[a=r"s"]#[a=r##"s"#"##]#[a=b"s"]#[a=br#"s"#]#[a=c"s"]#[a='c']#[a=b'c']#[a=1]#[a=1u8]#[a=0xff_u32]#[a=0b1010]#[a=0o17]#[a=1.5]#[a=1e10_f64]#[a=true]#[a=false]fn literals(){}
#[a(b="s",c=r"s",d=b"s",e='c',f=1,g=1.5,h=true,i=1_000_000u64,j=0xdead_beef,k="a rather long string value to push this list of arguments well beyond the width")]fn literal_list(){}
#[a("s",r"s",b"s",'c',1,1.5,true)]#[a("only a string")]#[a(42)]#[a(b(1),c("x"),d('y'))]fn bare_literals(){}
/* aar002 key value with an expression as the value */
#[a=-1]#[a=1+2]#[a=b::c]#[a=b!()]#[a=include_str!("x")]#[a=concat!("x","y")]#[a=(1,2)]#[a=[1,2]]#[a=B{c:1}]#[a=f(x)]#[a=&x]#[a=!x]fn expression_values(){}
#[a(b=-1,c=1+2,d=e::f,g=h!(),i=(1,2))]fn expression_values_in_a_list(){}
#[a(b(c(d(e(f(g(h(i(j)))))))))]fn deep(){}
#[a(b(c(d(e="a string at depth five which is rather long",f(g="another string, at depth six, which is also rather long",h)))))]fn deep_and_long(){}
// aar003 trailing commas and odd line breaks in the input
#[a(b,)]#[a(b,c,)]#[a(b(c,),)]#[a(b=1,)]fn trailing(){}
#[a
(
b
,
c
=
"d"
,
e
(
f
)
)
]
fn broken(){}
#[a(b,

c,


d)]fn blank_lines(){}
#[   a   (   b   ,   c   =   "d"   )   ]#[a(b,c="d")]#[ a ( b , c = "d" ) ]fn spaced(){}
/* aar004 arguments that are not meta items, arbitrary token trees */
#[a(b c d)]#[a(x=>y)]#[a(fn f(){})]#[a(1+2)]#[a(-1)]#[a(..)]#[a(a;b)]#[a(x:u8)]#[a(|x|x)]#[a(<T>)]#[a(#[b])]#[a(?)]#[a(@)]#[a(_)]fn tokens(){}
#[a{b,c}]#[a[b,c]]#[a{b=1;c=2}]#[a[1,2,3]]#[a{fn f(){}}]#[a(b{c},d[e],f(g))]fn delimiters(){}
#[a(b="c"d)]#[a(b,,c)]#[a(b=)]#[a(=b)]#[a(b==c)]#[a('lifetime)]#[a(r#raw)]#[a($x)]fn odd(){}
// aar005 attributes of well known crates
#[tokio::main(flavor="multi_thread",worker_threads=4)]#[tokio::test(start_paused=true)]async fn tk(){}
#[instrument(skip(self,a_rather_long_argument_name),fields(x=%y,z=?w,a.b.c=tracing::field::Empty),level="debug",err(Debug),ret)]fn tr(){}
#[wasm_bindgen(js_namespace=["a","b"],js_name="theName",catch,method,getter=the_getter,structural,final)]fn wb(){}
#[pyo3(signature=(a,b=1,*args,c=None,**kwargs),text_signature="(a, b=1, *args, c=None, **kwargs)")]fn py(){}
#[rstest(input,expected,case(1,2),case::named(3,4),case("a string",Some(vec![1,2,3])),::trace)]fn rs(){}
#[test_case(1,2=>3;"one plus two")]#[test_case(-1,1=>matches Ok(_);"a name")]#[test_case("x"=>panics "a message")]fn tc(){}
#[clap(name="prog",version,author="someone <someone@example.invalid>",about=None,long_about="a long text about the program which goes on and on",default_value_t=5,value_parser=clap::value_parser!(u16).range(1..))]struct Cl;
/* aar006 strings inside arguments */
#[a(b="a string with escapes \n \t \\ \" \u{e9}",c="ünïcödé 日本語 🦀",d="",e="a string
over two lines",f="a \
    continuation")]fn strings(){}
#[a(b="the first very long string value which on its own is already close to the maximum width of a line....",c="the second very long string value which on its own is already close to the maximum width of a line...")]fn long_strings(){}
#[an_attribute_name_that_is_extremely_long_so_long_that_nothing_else_will_fit_on_the_same_line_as_this_name(x)]fn long_name(){}
#[a(an_argument_name_that_is_extremely_long_so_long_that_nothing_else_will_fit_on_the_same_line_as_this_name_x)]fn long_arg(){}
#[a(b="x")]#[a(b="x")]#[a(b="x")]#[a(b="x")]#[a(b="x")]#[a(b="x")]#[a(b="x")]#[a(b="x")]#[a(b="x")]#[a(b="x")]#[a(b="x")]#[a(b="x")]fn many(){} // aar007 trailing comment after many attributes

// aar008 attribute names that are keywords or look like them
#[unsafe(no_mangle)]#[unsafe(export_name="x")]#[unsafe(link_section=".s")]fn un(){}
#[cfg_attr(all(),unsafe(no_mangle))]#[r#unsafe(x)]#[r#fn]#[r#mod::r#struct]#[é(ü="ö")]#[名前(値=1)]fn kw(){}
#[some_tool::something(a,b)]#[clippy::msrv="1.56"]#[rustc_layout_scalar_valid_range_start(1)]#[diagnostic::on_unimplemented(message="m",label="l",note="n")]fn tools(){}
#[a(b(c="1",d="2"),b(c="3",d="4"),b(c="5",d="6"),b(c="7",d="8"),b(c="9",d="10"),b(c="11",d="12"))]fn repeated(){}
