// rustfmt-edition: 2021
// Extra corpus (written for the checks, not taken from rustfmt): let-else statements with short and long patterns, initialisers and diverging blocks, types, attributes and nesting.

// lel001 the shortest forms
fn short(o:Option<u8>)->u8{let Some(x)=o else{return 0};x}

fn simple(opt: Option<u32>, res: Result<String, Error>) -> u32 {
    let Some(a)=opt else{return 0;};
    let Some(b) = opt else { return 0 }; // lel002 no semicolon inside the block
    let   Some( c )   =   opt   else   {   panic!( "nothing" )   }  ;
    let Ok(text)=res else{
        return 1
    };
    /* lel003 the else block on its own line */
    let Some(d) = opt
    else {
        return 2;
    };
    let Some(e) = opt else
    {
        continue_elsewhere()
    };
    let Some(f) = opt else { loop {} };
    let Some(g) = opt else { std::process::exit(1) }; // lel004 a diverging call
    let Some(h) = opt else { unreachable!() };
    let Some(i) = opt else {};
    let Some(j) = opt else { /* lel005 only a comment in the block */ };
    a+b+c+d+e+f+g+h+i+j
}

// lel006 long pieces that force breaking at different points
fn long_pieces(configuration: &Configuration, registry: &mut Registry) -> Result<(), Error> {
    let Some(entry_with_a_long_name) = registry.lookup_entry_by_its_fully_qualified_name(configuration.name()) else { return Err(Error::NotFound) };
    let Some(short) = registry.lookup_entry_by_its_fully_qualified_name(configuration.name(), configuration.version(), configuration.flags()) else { return Err(Error::NotFound) };
    let Entry::Occupied { key: occupied_key_with_long_name, value: occupied_value_with_long_name, generation: _ } = entry_with_a_long_name else { return Ok(()) };
    /* lel007 a long else block with several statements */
    let Ok(parsed) = short.parse::<u64>() else { log::warn!("could not parse {:?} as an unsigned integer, falling back", short); registry.mark_invalid(short); return Err(Error::Invalid { reason: "not a number", position: 0 }); };
    let (Some(left_hand_side_value), Some(right_hand_side_value), Some(operator_between_them)) = (stack.pop(), stack.pop(), operators.pop()) else { break 'evaluation };
    // lel008 initialiser is a method chain
    let Some(last_segment) = configuration.path().components().filter(|c| !c.is_empty()).map(|c| c.to_lowercase()).last() else { return Ok(()) };
    let Some(x) = (if configuration.enabled { registry.first() } else { registry.last() }) else { return Ok(()) };
    let Some(y) = (match registry.state { State::Ready => Some(1), _ => None }) else { return Ok(()); }; /* lel009 a match in parentheses as initialiser */
    let Some(z) = ({ let t = registry.take(); t }) else { return Ok(()) };
    Ok(())
}

fn with_types_and_attrs(value: Value) {
    let Some(n): Option<u8> = value.as_small() else { return };
    let Ok(m):Result<std::collections::HashMap<String,Vec<(usize,usize)>>,Box<dyn std::error::Error+Send+Sync+'static>> = value.as_map() else { return }; // lel010 very long type
    #[allow(unused_variables)] let Some(p) = value.p() else { return };
    /* lel011 before an attribute on its own line and its let */
    #[cfg(feature = "extra")]
    let Value::Extra { payload, .. } = value else { return };
    let Some(ref q) = value.q else { return };
    let Some(ref mut r) = value.r else { return };
    let Some(mut s) = value.s else { return };
    let &Some(t) = &value.t else { return };
    let Some(&mut ref u) = value.u.as_mut() else { return };
}

// lel012 patterns of every kind before the else
fn pattern_kinds(v: V) {
    let (1|2|3) = v.n else { return };
    let (Ok(x)|Err(x)) = v.r else { return };
    let [first, .., last] = v.items[..] else { return }; /* lel013 slice */
    let [a, b] = v.pair else { unreachable!() };
    let (Some(l), Some(r)) = (v.l, v.r) else { return };
    let Point{x:0,y} = v.point else { return };
    let Point { x, y: 0..=10 } = v.point else { return };
    let Wrapper(Inner(Innermost{value:Some(deep),..}),_) = v.wrapped else { return };
    let whole @ Some(_) = v.opt else { return }; // lel014 at binding
    let 0..=9 = v.digit else { return };
    let "literal" = v.name else { return };
    let r#type @ Kind::r#struct = v.kind else { return };
    let Some(größe) = v.maß else { return "ünïcödé" };
    let mac!(a, b) = v.m else { return };
    let box Some(inner) = v.boxed else { return };
    let _ = v else { return };
}

fn nesting_and_labels(queue: &mut Queue) -> u8 {
    'outer: for item in queue.drain() {
        let Some(inner) = item.inner else { continue };
        let Some(value) = inner.value else { continue 'outer; }; // lel015 labelled continue
        let Ok(number) = value.parse::<u8>() else { break 'outer };
        let Some(result) = (loop { let Some(candidate) = next() else { break None }; if good(candidate) { break Some(candidate) } }) else { return 0 };
        /* lel016 let else inside the else block of a let else */
        let Some(outer_value) = first() else { let Some(fallback) = second() else { return 1 }; return fallback };
        let f = || { let Some(v) = captured else { return 0 }; v };
        let g = async { let Ok(v) = fut.await else { return }; };
        let Some(k) = (unsafe { ptr.as_ref() }) else { return 2 };
    }
    let v = match queue.peek() { Some(p) => { let Some(q) = p.q else { return 3 }; q } None => 0 }; // lel017 inside a match arm
    if let Some(w) = queue.w { let Some(z) = w.z else { return 4 }; }
    v
}
