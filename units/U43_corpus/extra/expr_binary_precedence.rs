// rustfmt-edition: 2021
// Extra corpus (written for the checks, not taken from rustfmt): binary operators, precedence, redundant parentheses, long binary chains, compound assignment.

// bop001 short arithmetic with odd spacing
fn arithmetic_short(){let a=1+2*3-4/5%6;let b=(1+2)*(3-4)/(5%6); // bop002 trailing after the parenthesised one
let c = ( ( a ) ) + ( ( ( b ) ) ) ;
/* bop003 block comment between statements */
let d=a<<2>>1&0xff|0x0f^0b1010_1010;let e = a   <<   ( 2 >> 1 ) & ( 0xff | 0x0f ) ^ 0o777 ;
    let f = -a - -b - - -c ; // bop004 minus signs in a row
let g = !a & !!b | !(!c) ;
let h = *p * *q ** r; let i = &a & &b && &&c == &&d;
}

// bop005 comparison and logical operators
fn comparisons (x:i32,y:i32)->bool{
let a = x<y&&y>x||x<=y&&y>=x||x==y&&x!=y ;
let b = (x<y)&&((y>x)||(x<=y))&&(((y>=x))) ; /* bop006 nested redundant parentheses */
let c = (x as u8) < (y as u8) ;
let d = (x as usize) << 3 ; // bop007 cast before a shift needs the parentheses
let e = (x as usize as u64 as i128) < 5 as i128 ;
    let f = (x == y) == true ;
a&&b||c&&d&&e||f
}

/* bop008 long chains that do not fit in one hundred columns */
fn long_chains(){
let total_length_of_everything = first_component_length + second_component_length + third_component_length + fourth_component_length + fifth_component_length;
let mixed_precedence_value = alpha_coefficient * beta_coefficient + gamma_coefficient * delta_coefficient - epsilon_coefficient / zeta_coefficient % eta_coefficient;
// bop009 a logical chain with calls inside
let is_acceptable = self.first_condition_holds(argument_one) && self.second_condition_holds(argument_two, argument_three) || !self.third_condition_holds() && fallback_condition;
let bits = (flag_register_alpha & MASK_FOR_ALPHA) << SHIFT_FOR_ALPHA | (flag_register_beta & MASK_FOR_BETA) << SHIFT_FOR_BETA | (flag_register_gamma & MASK_FOR_GAMMA) >> SHIFT_FOR_GAMMA;
let s = "a string operand that is quite long indeed".to_owned() + "another string operand that is also long" + &third_operand_string + "end";
    /* bop010 deep parenthesised nesting */
let nested = ((((aaaaaaaaaaaaaaaaaaaa + bbbbbbbbbbbbbbbbbbbbbbbb) * (cccccccccccccccccccccc - dddddddddddddddddddddd)) / (eeeeeeeeeeeeeeeeeeeeeeee + ffffffffffffffffffffff)) % gggggggggggggggggggggggggggg);
let cmp = very_long_function_name_number_one(argument_one, argument_two) == very_long_function_name_number_two(argument_three, argument_four);
}

// bop011 compound assignment operators, all of them
fn compound(mut a:u64,b:u64){
a+=b;a-=b;a*=b;a/=b;a%=b; // bop012 five on one line
a   &=   b ; a |= b ; a ^= b ; a <<= b ; a >>= b ;
    a += b * 2 + ( b - 1 ) ;
/* bop013 assignment with long right hand side */
some_structure.some_field.some_inner_field += another_structure.compute_the_increment(first_argument, second_argument) * scaling_factor_for_increment;
*pointer_to_value ^= 0xdead_beef_u64 ;
array_of_values[index_into_array+1] <<= shift_amounts[index_into_array] ;
    a = b = c ; // bop014 chained plain assignment parses as right associative
(a , b) = (b , a) ;
[a , b] = [b , a] ; /* bop015 destructuring assignments */
(a , .. ) = tuple_value ; Struct { a , b : _ } = struct_value ; _ = a ;
}

// bop016 unusual literals as operands
fn literals(){
let a = 1_000_000u32 + 0xFFu32 + 0o17u32 + 0b1111_0000u32 ;
let b = 1.0e10f64*2.5E-3+1e+7-0.5f32 as f64 ;
let c = 1. + 2. ; // bop017 float with trailing dot
let d = b'a' + b'\n' + b'\x7f' + b'\'' ;
let e = 'a' as u32 + '\u{1F600}' as u32 + '\'' as u32 ;
    let f = i128::MAX - 170141183460469231731687303715884105727i128 ;
let g = 1..2 == (1..2) ; let h = 2 - -2 ; let i = 2 - (-2) ; let j = 2 - (- 2i8) ;
/* bop018 unicode strings and identifiers as operands */
let größe = länge * breite + "жёлтый".len() + "日本語".len() + r#"raw "quoted""#.len() + br##"bytes"##.len() ;
}

// bop019 lazy boolean with blocks, closures, and control flow operands
fn control_operands(){
let a = (if c {1} else {2}) + (match x { _ => 3 }) ;
let b = { 1 } + { 2 } ; /* bop020 blocks as operands */
let c = (|| 1)() + (|x| x)(2) ;
let d = x && return ; let e = y || break 'outer ; let f = z && continue ;
    let g = (a = 5) == () ; // bop021 assignment in parentheses
let h = (return) + 1 ;
let i = unsafe { *p } * 2 + loop { break 7 } ;
let j = a < (b as i32) && (c as i32) < d ; let k = (a as i32) < b ; let l = (a as usize)<<b;
let m = a + (b + c) + (d * e) - (f - g) - ((h - i)) ;
}

// bop022 operators on references and dereferences
fn refs(){
let a = &mut*x ; let b = & mut * * y ; let c = &&&z ; let d = &raw const w ; let e = &raw mut v ;
let f = *&*&*u ; /* bop023 alternating star and ampersand */
    let g = &(a+b) ; let h = &mut(a,b) ; let i = &[a,b][..] ; let j = -(-(-k)) ; let l = !(!(!m)) ;
let n = &a.b ; let o = (&a).b ; let p = (*a).b ; let q = *a.b ; let r = (*a)[0] ; let s = *a[0] ;
let t = -(a.b) ; let u = (-a).b() ; let v = -a.b() ; // bop024 unary against method call
let w = &mut some_very_long_structure_name.some_very_long_field_name.another_long_field_name[some_long_index_expression + 1];
}
