// rustfmt-edition: 2021
// Extra corpus (written for the checks, not taken from rustfmt): attributes on struct fields, tuple fields, enum variants, function parameters (self, patterns, variadic), closure parameters, generic parameters, and fields of struct expressions and struct patterns.
struct A{#[a]x:u8,#[a]#[b]pub y:u8,#[a(b="c")]#[d]#[e]pub(crate) z:u8}
struct B{
    #[serde(rename="theFirstFieldOfThisStructureWhichHasAVeryLongNameInTheSerialisedFormIndeedItHas")]a:u8, // amb001 trailing comment after a field
    #[allow(unused)]#[deprecated(since="0.1.0",note="this field is not used any more and will go away soon")]pub a_field_with_a_long_name:std::collections::HashMap<String,Vec<Option<u8>>>,
    /* amb002 block comment between fields */
    #[a]
    // amb003 line comment between the attribute and its field
    b:u8,
    #[a]r#type:u8,#[a]é:u8,
}
struct C(#[a]u8,#[a]#[b]pub u16,#[a(b="c")]pub(crate) u32);
struct D(#[allow(unused)]#[deprecated(since="0.1.0",note="this field is not used any more")]pub std::collections::HashMap<String,Vec<Option<u8>>>,/* amb004 comment between tuple fields */#[a]u8);
struct E(#[a]u8,);
union U{#[a]x:u8,#[a]#[b]y:u16}
// amb005 attributes on enum variants of every kind
enum F{#[a]A,#[a]#[b]B(u8),#[a]C{x:u8},#[a]D=4,#[a]E(#[b]u8,#[c]u16)=5,#[a]G{#[b]x:u8,#[c]y:u16}=6}
enum G{
    #[default]#[allow(unused)]A,
    #[a(b="a rather long string argument, long enough to push the attribute onto several lines when it is formatted")]B, // amb006 trailing comment after a variant
    #[a]
    /* amb007 block comment between the attribute and its variant */
    C(#[a]u8),
    #[a]AVariantWithAVeryLongNameAndManyFields(#[a]std::collections::HashMap<String,Vec<Option<u8>>>,#[b]std::collections::BTreeMap<String,u8>),
    #[a]#[b]#[c]#[d]#[e]#[f]#[g]#[h]#[i]#[j]#[k]#[l]#[m]#[n]#[o]#[p]#[q]#[r]#[s]#[t]#[u]#[v]#[w]#[x]#[y]#[z]Z,
}
/* amb008 attributes on function parameters */
fn a(#[a]x:u8){}
fn b(#[a]#[b]x:u8,#[c]y:u8,#[d(e="f")]z:u8,){}
fn c(#[a]&self,#[a]mut x:u8,#[a]_:u8,#[a](p,q):(u8,u8),#[a]S{x,..}:S,#[a]ref r:u8,#[a]&[h,..]:&[u8]){}
fn d(#[a]self){} fn e(#[a]&mut self){} fn f(#[a]&'a self){} fn g(#[a]mut self:Box<Self>){} fn h(#[a]self:&Rc<Self>,#[b]x:u8){}
fn i(#[allow(unused_variables)]a_parameter_with_a_long_name:u8,#[cfg(feature="x")]another_parameter_with_a_long_name:u16,#[a]the_last:u32)->u8{0}
fn j(
    #[a] x:u8, // amb009 trailing comment after a parameter
    /* amb010 block comment between parameters */
    #[b] y:u8,
    #[c]
    z:u8){}
extern "C"{fn k(#[a]x:u8,...);fn l(#[a]_:u8,#[b]y:u8,...);}
unsafe extern "C" fn m(#[a]x:u8,#[a]mut args:...){}
type Fp=fn(#[a]_:u8,#[b]x:u16)->u8;
type Fq=unsafe extern "C" fn(#[a]_:u8,#[a]#[b]a_named_parameter_of_a_function_pointer_type:u16,#[c(d="e")]another_named_parameter_of_the_same_type:u32,...);
type Fr=for<#[a]'a>fn(#[b]r:&'a u8);
trait T{fn f(#[a]&self,#[b]_:u8);fn g(#[a]self:Box<Self>,#[b]x:u8){}}
// amb011 attributes on closure parameters
fn n(){
    let c=|#[a]x,#[b]y:u8|x;
    let d=move|#[a]#[b](p,q):(u8,u8),#[allow(unused)]a_closure_parameter_with_a_long_name:u8,#[c]another_closure_parameter_with_a_long_name:u16|->u8{p};
    let e=async|#[a]x|x;
}
/* amb012 attributes on generic parameters */
fn o<#[a]'a,#[b]T,#[c]const N:usize>(){}
struct H<#[a]#[b]'a:'b,#[c]'b,#[d(e)]T:'a+Clone=u8,#[f]const N:usize=1>(&'a T,&'b [u8;N]);
impl<#[may_dangle]'a,#[may_dangle]T>Drop for H<'a,'a,T>{fn drop(&mut self){}}
enum I<#[a]AGenericParameterWithALongName,#[b]AnotherGenericParameterWithALongName,#[c]AndAThirdOneToForceWrapping>{A(AGenericParameterWithALongName),B(AnotherGenericParameterWithALongName),C(AndAThirdOneToForceWrapping)}
fn p<#[a]T>()where for<#[b]'a>&'a T:Clone,T:for<#[c]'b>Fn(&'b u8){}
trait V{type A<#[a]'a,#[b]T>;fn f<#[a]T>(&self);}
type W<#[a]T>=Vec<T>;
fn r<'a,'b,T>()where #[a]T:Clone,#[cfg(feature="x")]#[b]'a:'b,#[c(d="e")]for<'c>&'c T:Copy{}
// amb013 attributes on the fields of struct expressions and struct patterns
fn q(){
    let s=A{#[a]x:1,#[a]#[b]y:2,#[c(d="e")]z:3};
    let s=A{#[a]x,#[b]y,#[c]z};
    let s=B{#[allow(unused)]a:1,/* amb014 comment between expression fields */#[cfg(feature="a-feature-with-a-long-name")]a_field_with_a_long_name:HashMap::new(),#[a]b:2,#[a]r#type:3,#[a]é:4};
    let s=A{#[a]x:1,..base};
    let A{#[a]x,#[a]#[b]y:yy,#[c]z:_}=s;
    let A{#[a]x,..}=s;
    match s{A{#[a]ref x,#[b]ref mut y,#[cfg(any())]z}=>{},B{#[allow(unused)]a,#[cfg(feature="a-feature-with-a-long-name")]a_field_with_a_long_name,#[a]b,..}=>{}}
    if let F::G{#[a]x:0..=9,#[b]y:Some(_)|None}=f{}
}
