// Extra corpus (written for the checks, not taken from rustfmt): attributes, comments, doc comments and empty lines in every order.
#[derive(Clone)]
// aac001 comment behind a derive
/// doc behind a comment
struct A1;

#[derive(Clone)]

// aac002 empty line, then comment, then doc
/// doc
struct A2;

#[derive(Clone)]
// aac003 comment, then empty line, then doc

/// doc
struct A3;

#[derive(Clone)]

// aac004 empty lines on both sides

/// doc
struct A4;

#[derive(Clone)]
// aac005 between two derives
#[derive(Debug)]
struct TwoDerivesWithAComment;

/// doc first
#[derive(Clone)]
/// doc in the middle
#[inline]
// aac006 a comment
#[cfg(test)]

/// doc last
struct Mixed;

#[cfg(test)]

// aac007 empty line before

#[inline]
fn attributes_with_empty_lines() {}

#[rustfmt::skip]
// aac008 behind a skip attribute
fn   skipped  ( ) { }

struct Fields {
    #[serde(default)]
    // aac009 between a field attribute and the field
    a: u32,

    /// doc

    #[serde(default)]
    b: u32,

    // aac010 comment

    /// doc after an empty line
    c: u32,
}

enum Variants {
    #[default]
    // aac011 behind a variant attribute
    A,

    // aac012

    /// doc
    B,
}

fn statements() {
    #[allow(unused)]
    // aac013 between a statement attribute and the statement
    let a = 1;

    #[allow(unused)]

    let b = 2;

    // aac014

    #[cfg(test)]
    /// doc on a statement
    let c = 3;
    // aac015 last line of the body
}

mod inner {
    #![allow(unused)]

    // aac016 after inner attributes

    #![warn(missing_docs)]
    // aac017 after the inner attributes
    fn f() {}
}

impl Fields {
    #[inline]

    // aac018
    /// doc
    #[must_use]
    fn method(&self) {}
}

#[cfg_attr(feature = "x", derive(Clone))]
// aac019
#[cfg_attr(feature = "y", derive(Debug))]
/* aac020 block comment */ #[repr(C)]
struct CfgAttrs;
