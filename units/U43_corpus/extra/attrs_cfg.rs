// rustfmt-edition: 2021
// Extra corpus (written for the checks, not taken from rustfmt): cfg and cfg_attr attributes of every shape (all, any, not, key = value, nested predicates, cfg_attr with several attributes) on items, fields, statements and expressions.
#![cfg_attr(not(feature="std"),no_std)]
#![cfg_attr(all(feature="nightly",not(test)),feature(never_type,specialization),allow(incomplete_features))]
#![cfg_attr(docsrs,feature(doc_cfg),doc(cfg_hide(docsrs)))]
#![cfg(not(any()))]

#[cfg(unix)]fn a(){}
#[cfg(  not ( unix ) )]fn a(){}
#[cfg(all())]#[cfg(any())]#[cfg(all(),)]#[cfg(any(all(),),)]fn b(){}
// acf001 a key value predicate with odd spacing
#[cfg(target_os="linux")] #[cfg(target_pointer_width  =  "64")]   #[cfg(  feature="a-feature-name"  )] fn c(){}
#[cfg(all(unix,target_os="linux",target_arch="x86_64",target_env="gnu",target_endian="little",target_pointer_width="64",feature="one",feature="two"))]fn d(){}
#[cfg(any(all(unix,not(target_os="macos")),all(windows,any(target_env="msvc",target_env="gnu")),not(any(target_arch="wasm32",target_arch="wasm64",all(target_vendor="unknown",not(debug_assertions))))))]
fn a_function_behind_a_deeply_nested_predicate(){}
/* acf002 block comment before the cfg_attr group */
#[cfg_attr(test,ignore)]fn e(){}
#[cfg_attr(test,)]fn e0(){}
#[cfg_attr(all(),inline,must_use,cold)]fn f()->u8{0}
#[cfg_attr(feature="serde",derive(Serialize,Deserialize),serde(rename_all="camelCase",deny_unknown_fields))]struct S{
    #[cfg(feature="a")]a:u8, // acf003 trailing comment after a conditional field
    #[cfg(not(feature="a"))]a:u16,
    #[cfg_attr(feature="serde",serde(default,skip_serializing_if="Option::is_none",rename="theOtherNameOfThisFieldInTheFormat"))]pub a_field_with_a_long_name:Option<u8>,
    /* acf004 block comment between conditional fields */
    #[cfg_attr(any(feature="x",feature="y"),cfg_attr(feature="z",allow(unused)))]nested:(),
}
#[cfg_attr(target_os="linux",path="linux.rs")]#[cfg_attr(windows,path="windows.rs")]#[cfg_attr(not(any(target_os="linux",windows)),path="a/rather/long/path/for/all/the/other/systems/that/we/do/not/really/know/about.rs")]mod sys{}
#[cfg_attr(rustfmt,rustfmt_skip_is_not_used_here)]#[cfg_attr(rustfmt,rustfmt::other)]fn g(){}
#[cfg_attr(feature="cargo-clippy",allow(clippy::too_many_arguments,clippy::cognitive_complexity,clippy::type_complexity))]fn h(){}
// acf005 version and target_has_atomic and panic predicates
#[cfg(version("1.50.0"))]#[cfg(target_has_atomic="ptr")]#[cfg(panic="unwind")]#[cfg(target_feature="avx2")]#[cfg(r#raw)]#[cfg(accessible(::std::mem::swap))]fn i(){}
#[cfg(true)]#[cfg(false)]#[cfg(not(true))]#[cfg(any(true,false))]fn j(){}
#[cfg_attr(debug_assertions,derive(Debug))]#[cfg_attr(not(debug_assertions),derive(Clone,Copy))]#[derive(PartialEq)]enum E{
    #[cfg(unix)]A,
    #[cfg(windows)]#[cfg_attr(windows,allow(unused))]B{#[cfg(target_env="msvc")]x:u8},
    // acf006 comment between conditional variants
    #[cfg_attr(feature="default-variant",default)]C(#[cfg(all())]u8,#[cfg(any())]u16)=3,
}
fn k(#[cfg(unix)]fd:i32,#[cfg(windows)]handle:*mut(),#[cfg_attr(test,allow(unused_variables))]a_parameter_with_a_long_name_to_force_wrapping:u8)->u8{
    #[cfg(unix)]let x=1;
    #[cfg(not(unix))]let x=2; // acf007 trailing comment after a conditional let
    #[cfg(debug_assertions)]{println!("debug")}
    #[cfg(any(debug_assertions,feature="a-feature-with-a-long-name",feature="another-feature-with-a-long-name"))]println!("something");
    /* acf008 block comment between conditional statements */
    #[cfg(unix)]return x;
    #[cfg(not(unix))]#[cfg_attr(windows,allow(unreachable_code))]{return x+1}
    let v=[#[cfg(unix)]1,#[cfg(windows)]2,#[cfg(all(not(unix),not(windows)))]3,];
    let s=S{#[cfg(feature="a")]a:1,#[cfg(not(feature="a"))]a:2,a_field_with_a_long_name:None,#[cfg_attr(x,y)]nested:()};
    call(#[cfg(unix)]fd,#[cfg(windows)]handle, /* acf009 comment between arguments */ #[cfg(all())]0);
    match x{
        #[cfg(unix)]0=>1,
        #[cfg(windows)]#[cfg_attr(windows,allow(unreachable_patterns))]0=>2,
        // acf010 comment between conditional arms
        #[cfg(all(unix,target_os="linux",target_arch="x86_64",target_env="gnu",target_endian="little",feature="one"))]1|2|3=>{4}
        #[cfg_attr(a,b)]_=>#[cfg(all())]{0},
    }
}
impl<#[cfg(feature="a")]T,#[cfg(not(feature="a"))]'a,#[cfg_attr(x,may_dangle)]const N:usize>X for Y<N>{
    #[cfg(feature="a")]type A=T;
    #[cfg(not(feature="a"))]#[cfg_attr(docsrs,doc(cfg(not(feature="a"))))]const B:u8=0;
    // acf011 comment between conditional associated items
    #[cfg_attr(feature="inline-more",inline)]#[cfg_attr(docsrs,doc(cfg(any(feature="alloc",feature="std"))))]fn f(&self){}
}
#[cfg(feature = "é")]#[cfg(feature = r"raw")]#[cfg(feature = r#"raw "quoted""#)]#[cfg_attr(feature="x\ty\u{e9}",doc="ünïcödé")]fn l(){}
// acf012 a predicate list already broken over several lines
#[cfg(all(
    unix,

    windows
))]fn m(){}
#[cfg_attr(
    all(),
    inline
)]#[cfg_attr(all(),cfg_attr(all(),cfg_attr(all(),cfg_attr(all(),cfg_attr(all(),cfg_attr(all(),cfg_attr(all(),inline)))))))]fn n(){}
extern "C"{#[cfg(unix)]fn o();#[cfg_attr(windows,link_name="p_win")]fn p();}
/* acf013 the last comment */
#[cfg(all(unix,test))]#[cfg_attr(all(unix,test),test)]fn q(){}
