// rustfmt-edition: 2021
// Extra corpus (written for the checks, not taken from rustfmt): unit, tuple and braced structs, unions, field visibility, field attributes, long and short field lists.

struct   U ;
pub struct U2;
pub(crate)   struct   U3  ;
// stu001 tuple structs come next
struct T0();
struct T1(u8);
struct T1c(u8,);
struct T2 ( u8 , pub u16 , pub(crate) u32 , pub(in crate::a) u64 , pub(super) i8 , pub(self) i16 ) ;
struct TupleNested(((u8,),(u16,u32)),[(u8,u8);2],fn((u8,))->(u8,));
pub struct ATupleStructWithALongName(pub FirstFieldTypeWithALongName, pub SecondFieldTypeWithALongName, ThirdFieldType);
pub struct TupleAttr(#[serde(skip)] u8, #[cfg(feature="x")]#[allow(unused)] pub u16,);
struct TupleComments(
    u8, // stu002 comment after the first tuple field
    /* stu003 block comment before the second tuple field */ u16,
    // stu004 own line comment before the third tuple field
    u32,
);
/* stu005 braced structs */
struct B0{}
struct B0s { }
struct B0n {
}
struct B1{a:u8}
struct B1c{a:u8,}
pub struct B2 { pub a : u8 , pub(crate) b:u16, pub(in crate::x::y) c : u32,d:u64 }
struct OnlyComment {
    // stu006 a struct body with only a comment
}
struct OnlyBlockComment { /* stu007 a struct body with only a block comment */ }
struct FieldComments {
    a: u8, // stu008 trailing comment after a field
    /* stu009 block comment before a field */ b: u16,
    // stu010 own line comment before a field

    c: u32,


    d: u64 /* stu011 block comment after the last field which has no comma */
}
// stu012 fields with attributes and doc comments
pub struct Attrs {
    #[serde(rename="x")] pub a:u8,
    #[cfg(test)]#[allow(dead_code)] b:u16,
    /// stu013 doc comment on a field
    pub c:u32,
    #[doc="doc attribute"] /** stu014 block doc comment on a field */ d:u64,
    #[a_very_long_attribute_name_which_takes_arguments(first_argument="some value", second_argument="another value", third=3)] e:i8,
}
/* stu015 field types of many kinds */
struct Kinds<'a,T:?Sized+'a,const N:usize>{r:&'a T,m:&'a mut [u8],p:*const T,q:*mut u8,arr:[u8;N],arr2:[[u8;2];{N*2}],sl:Box<[T]>,f:fn(u8,u16)->u32,uf:unsafe extern "C" fn(*const u8,...)->i32,d:Box<dyn Fn(&T)->bool+Send+Sync+'a>,i:PhantomData<fn()->T>,t:(u8,(u16,),()),n:!,path:<T as Tr>::Assoc,qual:crate::vec::Vec<u8>,inf:Vec<_>,mac:mac!(u8),paren:(u8),}
struct LongFieldType{a_field_with_a_long_name:HashMap<String,Vec<Option<Box<dyn Iterator<Item=(usize,String)>+Send+Sync>>>>,another_field_with_a_very_long_name_that_leaves_little_room_for_the_type:SomeGenericType<WithAParameter>,}
struct r#struct{r#type:r#fn,r#match:u8}
struct Größe{名前:String,größe:usize,émoji:char}
struct AlignedFields{a:u8,bbbbbbbbbbbbbbbbbbbbbbbbb:u16,cc:u32,
    ddddddd:u64}
// stu016 generics and where clauses on structs
struct G1<T>(T);
struct G2<T,U=T>{t:T,u:U}
struct G3<T>(T)where T:Clone;
struct G4<T>where T:Clone{t:T}
struct AStructWithALongNameAndManyGenericParameters<'a,'b,FirstTypeParameter,SecondTypeParameter,ThirdTypeParameter>{a:&'a FirstTypeParameter,b:&'b SecondTypeParameter,c:ThirdTypeParameter}
pub struct ATupleStructWithALongNameAndGenerics<FirstTypeParameter,SecondTypeParameter>(pub FirstTypeParameter,pub SecondTypeParameter)where FirstTypeParameter:Clone;

/* stu017 unions */
union   Un { a : u8 , b : u16 }
pub union Un2{pub a:u8,pub(crate) b:f32,c:ManuallyDrop<String>,}
#[repr(C)]#[derive(Clone,Copy)]pub union Un3<'a,T:Copy+'a>where T:Default{a:T,b:&'a T,#[cfg(x)] c:[u8;4],
    // stu018 comment before the last field of a union
    d:()}
union UnLong{a_union_field_with_a_long_name:SomeLongTypeName<WithGenericParameters,AndAnotherOne>,another_union_field_with_a_long_name:u8}
union UnComment {
    a: u8, /* stu019 block comment after a union field */
    b: u16, // stu020 line comment after a union field
}
// stu021 attributes and derives on structs
#[derive(Debug,Clone,Copy,PartialEq,Eq,PartialOrd,Ord,Hash,Default)]#[repr(C,packed(2))]#[non_exhaustive]pub struct Derived{a:u8}
#[derive(Debug, Clone, Copy, PartialEq, Eq, PartialOrd, Ord, Hash, Default, Serialize, Deserialize, AnotherDerive)] struct LongDerive;
#[repr(transparent)] struct Wrapper(u8); #[repr(align(16))] struct Aligned([u8;16]);
fn local_structs(){struct L;struct L2(u8);struct L3{a:u8} union LU{a:u8} /* stu022 structs declared inside a fn body */ let _=L3{a:1};}
struct Short{a:u8}
struct VeryShort(u8);
struct NearlyFits{aaaaaaaaaaaaaaaa:u8,bbbbbbbbbbbbbbbbb:u8,ccccccccccccccccccc:u8,ddddddddddddddd:u8,eeeeeeeeeee:u8}
