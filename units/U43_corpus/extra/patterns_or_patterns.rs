// rustfmt-edition: 2021
// Extra corpus (written for the checks, not taken from rustfmt): or-patterns at top level and nested, leading vertical bars, or-patterns in let, parameters, closures, for, if let and matches!.

// orp001 the plain short forms
fn short(x:u8)->bool{match x{1|2|3=>true,_=>false}}

fn top_level(c: char, token: Token) -> Class {
    match c {
        |'a'|'e'|'i'|'o'|'u' => Class::Vowel, // orp002 a leading bar that rustfmt may drop
        | 'b' ..= 'd' | 'f'..='h'|'j'..='n' | 'p'..='t' | 'v'..='z' => Class::Consonant,
        /* orp003 too many alternatives for one line */
        '0' | '1' | '2' | '3' | '4' | '5' | '6' | '7' | '8' | '9' | '٠' | '١' | '٢' | '٣' | '٤' | '٥' | '٦' | '٧' | '٨' | '٩' | '०' | '१' | '२' => Class::Digit,
        ' '|'\t'|'\n'|'\r'|'\u{a0}'|'\u{2028}' if !token.is_raw() => Class::Space,
        // orp004 alternatives with paths
        _ if token == Token::Eof => Class::End,
        _ => Class::Other,
    }
}

fn long_paths(e: Event) -> u32 {
    match e {
        Event::KeyboardInputReceived{key:Key::Escape,..}|Event::WindowCloseRequested|Event::ApplicationTerminationSignal(Signal::Interrupt|Signal::Terminate)=>0,
        /* orp005 every alternative is a struct pattern */
        Event::Moved { x: 0, y } | Event::Moved { x: y, y: 0 } | Event::Resized { width: y, height: _ } | Event::Scrolled { delta: y, .. } => y,
        Event::Named(name @ ("alpha" | "beta"))|Event::Alias(name@("gamma"|"delta"|"epsilon_with_a_long_tail")) if name.len()>3 => 1, // orp006 at binding over a parenthesised alternative
        Event::A|Event::B =>{ 2 }
        // orp007 alternatives already one per line
        Event::C
        | Event::D
        | Event::E => 3,
        _ => 4,
    }
}

// orp008 nested alternatives inside tuples, slices, references and boxes
fn nested(v: (Option<u8>, Result<i16, ()>), s: &[u8], r: &&Option<bool>) {
    match v {
        (Some(1|2|3)|None, Ok(-1|0|1)|Err(())) => {}
        ( Some( 4 | 5 ) , Ok( ( 2 | 3 ) ) ) => {} /* orp009 redundant parentheses round an inner alternative */
        ((Some(6)|Some(7)), _) => {}
        (Some((((8)))|9), _) => {}
        _ => {}
    }
    match s {
        [1|2, .., 3|4] | [5|6] | [] => {}
        // orp010 an alternative with a rest binding
        [first @ (0|255), rest @ ..] | [rest @ .., first @ (1|254)] => drop((first,rest)),
        _ => {}
    }
    match r {
        &&Some(true|false) => {}
        &(&None|&Some(_)) => {} /* orp011 references inside an alternative */
    }
    match boxed { box (Some(1)|None) => {}, box Some(_) => {} }
}

fn in_let_and_params() {
    let (Ok(x)|Err(x),) = (result_of_same_type,);
    let (Ok(y) | Err(y)) = result_of_same_type; // orp012 let with parentheses kept
    let (| Ok(z) | Err(z)) = result_of_same_type;
    /* orp013 a long let with an alternative and a type */
    let (Either::Left(value_from_the_left_hand_side) | Either::Right(value_from_the_left_hand_side)): Either<SomeLongTypeName, SomeLongTypeName> = produce_an_either_value(1, 2);
    let [a|a, (b|b)] = [1,2];
    let (Wrapper::One(n) | Wrapper::Two(n, _) | Wrapper::Three(n, _, _)) = w else { return };
}

fn with_param((Ok(n)|Err(n)): Result<u32,u32>, (Shape::Circle{radius:size}|Shape::Square{side:size}|Shape::Triangle{base:size,..}): Shape, &(1|2|_): &u8) -> u32 { n+size }

// orp014 closures, loops and conditions
fn elsewhere(items: Vec<Result<u8, u8>>) {
    let f = |(Ok(v)|Err(v)): Result<u8,u8>| v;
    let g=|(Some(0|1)|None): Option<u8>, (A::X(q)|A::Y(q))|q;
    for Ok(v)|Err(v) in items.iter().copied() { use_value(v) } /* orp015 for loop over an alternative */
    for (Ok(v)|Err(v)) in items.iter().copied() {}
    for | (1|2, _) | (_, 3|4) in pairs {}
    if let Some(1|2)|None = opt {}
    // orp016 leading bar after if let and while let
    if let | Tok::Plus | Tok::Minus | Tok::Star | Tok::Slash | Tok::Percent | Tok::Caret | Tok::Ampersand | Tok::DoubleAmpersand = next_token() { binary() }
    while let|Some(b' '|b'\t')|Some(b'\n') = bytes.next() {}
    let ok = matches!(c, 'a'..='z'|'A'..='Z' | '_');
    let ok2 = matches!(token_with_a_long_name, Tok::Identifier(_) | Tok::Keyword(Kw::SelfValue | Kw::Super | Kw::Crate) | Tok::PathSeparator if allow_paths); /* orp017 matches with a guard */
}

fn literals_and_consts(n: i128, s: &str, b: &[u8], f: f32) {
    match n { i128::MIN|-1_000|0x7f|0o17|0b1010|1_i128|i128::MAX => {}, _ => {} }
    match s { ""|"a"|r"raw"|r#"ha"sh"#|"ünï" => {} _ => {} } // orp018 string alternatives
    match b { b""|b"ab"|br"raw"|[b'x',..] => {} _ => {} }
    match f { 0.0|-1.5e3|f32::INFINITY|1f32 => {} _=>{} }
    match path { <T as Trait>::CONST|<Vec<u8>>::EMPTY|Self::NONE|crate::a::b::C|::std::u8::MAX => {}, /* orp019 qualified paths as alternatives */ _ => {} }
    match m { mac!(a)|mac![b]|mac!{c} => {} _ => {} }
}
