// rustfmt-edition: 2021
// Extra corpus (written for the checks, not taken from rustfmt): nested destructuring in let, function parameters and for loops: tuples, tuple structs, structs with shorthand and rest, references, boxes, and patterns with types.

// dst001 short ones
fn short((a,b):(u8,u8))->u8{let (c,d)=(a,b);c+d}

fn tuples(t: (u8, (u16, (u32, (u64,)))), unit: ()) {
    let (a,(b,(c,(d,))))=t;
    let ( a , ( b , .. ) ) = t; // dst002 rest in a tuple
    let (..,(..,(..,(last,)))) = t;
    let (first,..)=t;
    let (..)=t;
    let ()=unit;
    let (x,)=(1,); /* dst003 single element tuple keeps its comma */
    let ((((deep))))=value;
    let (_,_,)=(1,2,);
    let (mut m, ref r, ref mut rm, _ignored, _) = five;
    // dst004 a long tuple that has to be broken
    let (first_component_of_the_tuple, second_component_of_the_tuple, (nested_third_component, nested_fourth_component), fifth) = produce_tuple();
    let (a, b): (u8, u16) = (1, 2);
    let (a,b):(std::collections::BTreeMap<String,Vec<Option<(usize,usize)>>>,std::collections::HashSet<&'static str>) = Default::default();
}

fn structs(p: Point3, line: Line, cfg: Config) {
    let Point3{x,y,z}=p;
    let Point3 { x : px , y : py , z : _ } = p; /* dst005 renamed fields */
    let Point3{x,..}=p;
    let Point3 { .. } = p;
    let Point3 { } = q;
    let Line{start:Point3{x:x0,y:y0,..},end:Point3{x:x1,y:y1,..}}=line; // dst006 struct inside struct
    let Line { start: Point3 { x: start_x_coordinate, y: start_y_coordinate, z: start_z_coordinate }, end: Point3 { x: end_x_coordinate, y: end_y_coordinate, z: end_z_coordinate } } = line;
    let Config{ref name,ref mut retries,mut verbose,r#type,größe:ünï,..}=cfg;
    /* dst007 field patterns with attributes and boxes */
    let Config { #[cfg(feature="a")] name, #[cfg(not(feature="a"))] name: _, box inner, .. } = cfg;
    let Tuple3(a,b,c)=t3;
    let Tuple3(a,..)=t3;
    let Tuple3(..,c)=t3;
    let Tuple3 ( .. ) = t3;
    let Tuple0()=t0;
    let Outer(Middle(Inner(Some((ref a, [b, .., c])))))=nested; // dst008 five levels deep
    let module::path::to::Struct::<GenericArgument>{field,..}=generic_value;
    let <T as Trait>::Assoc{field}=assoc_value;
    let Self{a,b}=*self;
    let Self(a,b)=self;
    let Wrapper::<u8>(inner)=w;
    let crate::Enum::Variant{tuple_field:(ta,tb),array_field:[aa,ab],..}=e else{return};
}

// dst009 references, dereferences and literals inside destructuring
fn references(r: &(u8, &mut (u16, Box<u32>)), rr: &&&u8) {
    let &(a,&mut(b,ref c))=r;
    let & ( a , _ ) = r;
    let &&&v=rr; /* dst010 three ampersands in a row */
    let &mut ref mut m = &mut x;
    let &(ref a, ref b) = &pair;
    let (&a, &mut b, &&c) = (&1, &mut 2, &&3);
    let box (a,b)=boxed;
    let (-1, 'c', "s", 1.5, true, b'x', b"bytes") = literals else { return };
    let (CONSTANT, path::CONSTANT, <u8>::MAX) = consts else { return };
}

fn parameters_one((a, b): (u8, u8), Point3 { x, y, .. }: Point3, Tuple3(p, _, r): Tuple3, [s, t]: [u8; 2], &(m, n): &(i8, i8)) {}
fn parameters_two(Line{start:Point3{x:start_x_coordinate_of_the_line,..},end:Point3{x:end_x_coordinate_of_the_line,..}}:Line,(mut counter,ref mut accumulator):(usize,Vec<u8>),_:u8,mut plain:u8,ref by_reference:String) {} // dst011 after a long parameter list
fn parameters_three(
    // dst012 a comment before the first parameter
    (a, b): (u8, u8), /* dst013 after the first parameter */
    Wrapper(inner): Wrapper, // dst014 after the second parameter
) {}
impl S { fn method(&self, (a,b):(u8,u8), Self{f,..}:Self) {} fn other(self: Box<Self>, &mut (ref mut a, _): &mut (u8,u8)) {} }

// dst015 for loops over patterns
fn for_loops(map: &HashMap<String, Vec<(u8, Point3)>>, grid: Vec<Vec<Cell>>) {
    for(k,v)in map{}
    for ( index , ( key , value ) ) in map.iter().enumerate() { use_all(index,key,value) }
    for &(a,b) in pairs.iter(){} /* dst016 reference pattern in a for loop */
    for Point3{x,y,..} in points {}
    for Point3 { x: horizontal_position_of_the_point, y: vertical_position_of_the_point, z: depth_position_of_the_point } in points.iter().filter(|p| p.visible).cloned() { draw(horizontal_position_of_the_point, vertical_position_of_the_point) }
    for (row_index, row) in grid.iter().enumerate() { for (column_index, Cell { value, neighbours: [north, east, south, west], .. }) in row.iter().enumerate() { visit(row_index, column_index) } }
    // dst017 mutable and reference bindings in for
    for (mut a, ref b, ref mut c) in triples {}
    for Tuple3(_, .., last) in t3s {}
    for _ in 0..10 {}
    for (i, _) | (_, i) in pairs {}
    for [a, b, rest @ ..] in arrays {}
    for ((a, b), (c, d)) in left.into_iter().zip(right) {}
    for (name, Some(value) | Ok(value)) in weird {}
    'outer: for (i, line) in text.lines().enumerate() { for (j, ch) in line.char_indices() { if ch == '#' { continue 'outer } } } /* dst018 labelled for loops */
    for (key_with_a_long_name, value_with_a_long_name) in a_collection_with_a_long_name.iter().map(|(k, v)| (k.clone(), v.clone())).filter(|(k, _)| !k.is_empty()) {}
    for x in (Range { start: 0, end: 10 }) {}
    for r#in in r#for {}
}
