// rustfmt-edition: 2021
// Extra corpus (written for the checks, not taken from rustfmt): impl blocks, inherent and trait impls, negative and unsafe impls, associated items inside impls.

impl   S{}
impl S {

}
// imp001 an impl whose body holds only a comment
impl S {
    // imp002 nothing but this comment
}
impl S { /* imp003 only a block comment in the body */ }
impl Tr for S{}
unsafe impl Send for S{}
unsafe   impl < T > Sync for S2 < T > where T:Sync{}
impl !Send for S{}
impl<T>!Sync for S2<T>{}
/* imp004 default and const impls */
default impl<T>Tr for T{}
default unsafe impl<T>Tr2 for T{}
impl const Tr for S{}
impl<T:~const Tr>const Tr for S2<T>{}
// imp005 impls for unusual self types
impl Tr for(){}
impl Tr for(A,){}
impl<A,B>Tr for(A,B,){}
impl<T>Tr for[T]{}
impl<T,const N:usize>Tr for[T;N]{}
impl<T:?Sized>Tr for&T{}
impl<'a,T:?Sized>Tr for&'a mut T{}
impl<T>Tr for*const T{}
impl<T>Tr for*mut T{}
impl Tr for!{}
impl<R,A>Tr for fn(A)->R{}
impl<R> Tr for unsafe extern "C" fn()->R{}
impl Tr for dyn Other+Send+Sync+'static{}
impl<'a>Tr for dyn for<'b> Fn(&'b u8)+'a{}
impl Tr for<S as Other>::Assoc{}
impl Tr for r#struct{}
impl crate::a::b::Tr<u8> for ::std::vec::Vec<u8>{}
impl Trait<{1+1}> for Type<{N},-3,'c'>{}

/* imp006 associated items of every kind */
impl S {
    const A:u8=1;
    pub const B : & 'static str = "bee" ;
    pub(crate) const C:[u8;3]=[1,2,3,];
    // imp007 comment between an associated const and a fn
    fn f(){}
    pub fn g(&self)->u8{self.0}
    pub(super) async fn h(&self){}
    pub const unsafe fn i(){}
    pub unsafe extern "C" fn j(){}
    #[inline] fn k(){} #[cold] #[inline(never)] fn l(){}
    /// imp008 doc comment on a method (doc comments carry tags too)
    fn m(){}
    type T=u8; /* imp009 inherent associated type above */
    mac!{}
    mac2!();
    mac3![a,b];
}
impl Tr for S {
    type Out=Vec<u8>;
    type Gat<'a,T>=&'a T where Self:'a,T:'a;
    type Long=SomeVeryLongGenericTypeName<WithSomeParameters,AndMoreParameters,AndEvenMoreParametersHere,Last>;
    const K:usize=Self::OTHER_CONSTANT_WITH_LONG_NAME*Self::YET_ANOTHER_CONSTANT_WITH_A_LONG_NAME+Self::THIRD_ONE;
    default fn d(){}
    default const DK:u8=0;
    default type DT=();
    fn f(&self)->Self::Out{vec![]} // imp010 trailing comment after a method
    fn g<'a,T>(&'a self,t:&'a T)->Self::Gat<'a,T>where T:'a{t}
}
// imp011 attributes on and inside impls
#[cfg(test)]#[allow(dead_code)]impl S{#![allow(unused)]#![doc="inner"] fn f(){}}
impl S {



    fn lots_of_blank_lines_before(){}



    fn and_between(){}



}
/* imp012 long impl headers */
impl<'a, 'b, FirstGenericParameter, SecondGenericParameter> ATraitWithAVeryLongNameIndeed<'a, FirstGenericParameter> for AStructWithAVeryLongNameIndeed<'b, SecondGenericParameter> {}
impl<T> AnExtremelyLongTraitNameThatTakesUpMostOfTheLineWidthAllByItselfWithoutHelp for AnExtremelyLongTypeNameAsWell<T> {}
impl ShortTr for AnExtremelyLongTypeNameAsWellThatAlsoTakesUpMostOfTheAvailableLineWidthAllByItselfNoHelp123456 {}
impl<T,U> Tr<T> for S2<U> where T:From<U>+Clone,U:Into<T>+Clone+Default+SomeOtherRatherLongBoundName+YetAnotherBound { fn f(){} }
impl<T> S2<T> { fn a(&self){} fn b(&self){} } // imp013 comment after the closing brace of an impl
impl dyn Tr { fn on_dyn(&self){} }
impl dyn Tr+Send+'_ { }
impl<T> Tr for S2<T> where T: Clone
{
    // imp014 comment at the start of a body after a where clause
    fn f(){}
    // imp015 comment at the end of the body
}
impl Ünï for Größe { fn 名前(&self){} }
impl S { fn very_short(){} }
impl S { fn chained()->Self{Self{a:1,b:2}.with(3).with(4)} fn empty_body(){ } }
