// rustfmt-edition: 2021
// Extra corpus (written for the checks, not taken from rustfmt): qualified paths in type and expression position, associated type bindings and bounds in generic arguments, global and crate-relative paths.

// qpb001 qualified paths in aliases
type Q1=<u8 as Tr>::A;
type Q2 = < u8   as   Tr > :: A ;
type Q3=<Vec<u8>as IntoIterator>::Item;
type Q4=<<u8 as Tr>::A as Tr>::A;
type Q5=<<<u8 as Tr>::A as Tr>::A as Tr>::A;
type Q6=<u8>::A;   // qpb002 no trait in the qualifier
type Q7=<[u8]>::A;
type Q8=<(u8,)as Tr>::A;
type Q9<'a>=<&'a u8 as Tr>::A;
type Q10=<dyn Tr as Tr2>::A;
type Q11=<fn(u8)->u8 as Tr>::A;
type Q12=<u8 as Tr<u16>>::A<u32>;
type Q13=<u8 as ::core::ops::Add<u8>>::Output;
type Q14<'a>=<u8 as Tr>::B<'a,u8>;
type Q15=<Self as Tr>::A;
/* qpb003 paths with odd heads */
type P1=::core::option::Option<u8>;
type P2 = crate :: a :: b :: C < u8 > ;
type P3=self::a::B;
type P4=super::super::a::B;
type P5=r#mod::r#fn::r#Type<r#u8>;
type P6=größe::Länge<Ünïcödé>;
type P7=a::b<u8>::C<u16>;
type P8=Fn(u8)->u8;
type P9=a::Fn(u8)->u8;

// qpb004 a qualified path that is too long
type VeryLongQualifiedAlias<'lifetime> = <<SomeVeryLongTypeNameNumberOne<'lifetime> as SomeVeryLongTraitNameNumberOne<SomeVeryLongTypeNameNumberTwo>>::SomeVeryLongAssociatedTypeName as SomeVeryLongTraitNameNumberTwo<'lifetime>>::AnotherVeryLongAssociatedTypeName<'lifetime, SomeVeryLongTypeNameNumberThree>;

// qpb005 bindings
type B1=Box<dyn Iterator<Item=u8>>;
type B2 = Box < dyn   Iterator < Item   =   u8 > > ;
type B3=Box<dyn Tr<A=u8,B=u16,>>;
type B4=Box<dyn Tr<u8,u16,A=u8,B=u16>>;
type B5<'a>=Box<dyn Tr<'a,u8,A=&'a u8>+'a>;
type B6=Box<dyn Tr<A=Box<dyn Tr<A=Box<dyn Tr<A=u8>>>>>>;
type B7=Box<dyn Tr<A<'static>=u8>>;
type B8=Box<dyn Tr<A=<u8 as Tr>::A>>;
type B9=Box<dyn Tr<N=3>>;
type B10=Box<dyn Tr<N={1+2}>>;
type B11=Box<dyn Tr<A=(),B=(u8,),C=[u8;2],D=fn(),E=!>>;

fn bounds_in_bindings<T:Iterator<Item:Clone+Send>,U:Tr<A:Tr<A:Tr>>>(x:impl Iterator<Item:Copy>,/* qpb006 between the impls */y:impl Tr<A=u8,B:Send+'static>){}
fn return_type_notation<T:Tr<method(..):Send>>()where T::method(..):Send,<T as Tr>::method(..):Sync{}
fn bindings_long<I: Iterator<Item = SomeVeryLongTypeNameNumberOne<SomeVeryLongTypeNameNumberTwo>> + SomeVeryLongTraitNameNumberOne<SomeVeryLongAssociatedTypeName = SomeVeryLongTypeNameNumberThree, AnotherVeryLongAssociatedTypeName: SomeVeryLongTraitNameNumberTwo + Send>>(i: I) {}

struct S<T:Tr>{
    a:T::A, // qpb007 a projection without a qualifier
    /* qpb008 before the qualified field */
    b : < T   as   Tr > :: A ,
    c:<T::A as Tr>::A,
    d:<<T as Tr>::A as Tr2<'static,u8>>::B<'static>, // qpb009 a nested projection
    e:Option<<T as Tr>::A>,
    f:Vec<<T as Tr>::A>,
}

trait Tr3{
    type A;
    // qpb010 between associated items
    type B:Tr<A=Self::A>;
    type C<'a>:Tr<A=<Self as Tr3>::A>+'a where Self:'a,<Self as Tr3>::A:'a;
    const K:<Self as Tr3>::A;
    fn f(x:<Self as Tr3>::A,/* qpb011 between parameters */y:Self::B)-><Self::B as Tr>::A;
}

impl<T>Tr3 for T where T:Tr<A=u8>,<T as Tr>::A:Copy,T::A:Send{
    type A=<T as Tr>::A;
    type B=<<T as Tr>::A as Tr>::A; /* qpb012 after an associated type */
    type C<'a>=&'a<T as Tr>::A where T:'a;
    const K:<Self as Tr3>::A=<<Self as Tr3>::A>::ZERO;
}

fn body(){
    let a=<u8 as Default>::default();
    let b = < u8   as   Default > :: default ( ) ; // qpb013 spaced out
    let c=<Vec<u8>>::new();
    /* qpb014 qualified paths in expressions and patterns */
    let d=<Vec<u8>as IntoIterator>::into_iter(v);
    let e=<[u8]>::len(&s);
    let f=<u8>::MAX;
    let g=<<u8 as Tr>::A as Tr>::K;
    let h=<T as Tr<u8>>::f::<u16>(1,/* qpb015 an argument remark */2);
    let i=<S as Tr>::Variant{x:1};
    let <S as Tr>::K=j;
    match k{<u8 as Tr>::K=>1,<u8>::MAX=>2,<S<u8>>::K..=<S<u8>>::L=>3,_=>4}
    // qpb016 a long one in a call
    let l = <SomeVeryLongTypeNameNumberOne<SomeVeryLongTypeNameNumberTwo> as SomeVeryLongTraitNameNumberOne<SomeVeryLongTypeNameNumberThree>>::some_very_long_function_name::<SomeVeryLongTypeNameNumberFour>(first_argument, second_argument);
    let m:<u8 as Tr>::A=n as<u8 as Tr>::A;
    let o=x.collect::<<V as Tr>::Collection<<T as Tr>::A>>();
    let p=iter.map(<_>::from).map(<u8 as Into<u16>>::into).sum::<<u16 as Tr>::A>();
}

impl<T>Tr for<T as Tr2>::A{}
impl<T:Tr>Tr2 for<T as Tr>::A where<T as Tr>::A:Sized{}
static Z:<u8 as Tr>::A=<u8 as Tr>::K; // qpb017 last remark
