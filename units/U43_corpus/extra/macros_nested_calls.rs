// rustfmt-edition: 2021
// Extra corpus (written for the checks, not taken from rustfmt): macro calls nested in macro calls, with mixed delimiters, blocks, closures, matches and comments among the arguments.

fn nesting(){
    // mnc001 two and three levels with the same delimiter
    outer!(inner!(1));
    outer!(middle!(inner!(1,2),3),4);
    /* mnc002 mixed delimiters */
    outer!(middle![inner!{1}]);
    outer![middle!{inner!(1)}];
    outer!{middle!(inner![1])}
    // mnc003 well known macros nested
    let v=vec![vec![1,2,3],vec![4,5,6],vec![],vec![7;3]];
    let s=format!("{}{}",format!("{:?}",vec![1u8,2]),concat!("a","b",stringify!(c d e)));
    println!("{}",format_args!("{} {}",line!(),column!()));
    assert!(matches!(vec![Some(1)].pop(),Some(Some(1))),"message {}",stringify!(x));
    /* mnc004 a long nest that has to be broken at several levels */
    let long=outer_macro_with_a_long_name!(middle_macro_with_a_long_name!(inner_macro_with_a_long_name!(first_argument,second_argument),third_argument),fourth_argument);
    let deep=a!(b!(c!(d!(e!(f!(g!(h!(i!(j!(k!(l!(m!(n!(o!(p!(0))))))))))))))));
    // mnc005 nested calls as method receivers and in chains
    let r=vec![opt!(1),opt!(2)].into_iter().map(|x|wrap!(x)).filter(|x|check!(x,limit!())).collect::<Vec<_>>();
    let t=try_it!(try_it!(try_it!(first()).second()).third());
}

fn blocks_and_closures_inside(){
    // mnc006 a block argument containing macro statements
    run!({ step!(1); step![2]; step!{3} });
    run!(move||{ log!("inside closure"); compute!(1,2) });
    /* mnc007 closure with a match containing macros in the arms */
    run!(|x|match x{ Some(v)=>yes!(v), None=>no!(), });
    run!(name,|a,b|{ let c=add!(a,b); assert_eq!(c,3,"sum of {} and {}",a,b); c },more);
    // mnc008 if else and loop expressions as arguments
    pick!(if cond!(){ a!() }else{ b!() });
    pick!(loop{ break brk!(); },while w!(){ },for i in it!(){ });
    /* mnc009 struct literal and array and tuple arguments containing macros */
    make!(S{a:f!(1),b:vec![g!(2)],});
    make!([x!(1),x!(2),x!(3)],(y!(1),y!(2)),[z!(0);4]);
}

fn comments_among_arguments(){
    outer!(inner!(1), // mnc010 after the first nested argument
        inner!(2), /* mnc011 after the second nested argument */
        inner!(3));
    let v=vec![
        // mnc012 before the first element
        elem!(1),
        elem!(2), // mnc013 after the second element
        /* mnc014 before the last element */ elem!(3),
    ];
    assert_eq!(left!(a), /* mnc015 between left and right */ right!(b));
    println!("{} {}", // mnc016 after the format string
        first!(x),second!(y));
}

// mnc017 nested calls in item position, the inner ones are items too
outer_item!{ inner_item!(a); inner_item![b]; inner_item!{c} }

outer_item!(inner_item!{ struct   S ; });

cfg_if!{ if #[cfg(unix)]{ inner_item!(unix); fn f(){ g!(1) } }else{ inner_item!(other); } }

/* mnc018 nested calls in type and pattern position */
type Nested=outer_ty!(inner_ty!(u8),inner_ty![u16],inner_ty!{u32});

fn nested_patterns(v:u8){
    match v{ outer_pat!(inner_pat!(1))=>a(), outer_pat![inner_pat!(2),inner_pat!(3)]=>b(), _=>c!(d!(e![])), }
}

fn nested_with_non_expression_tokens(){
    // mnc019 the outer arguments are not expressions so nothing inside can be formatted
    outer!(key=>inner!(1),other=>inner!(2));
    outer!(inner!(1);inner!(2);inner!(3));
    outer!{ let x=inner!(1) ; let y = inner ! [ 2 ] ; }
    /* mnc020 nested call after a keyword like token */
    outer!(async inner!(1));
    outer!(#[attr] inner!(1));
    outer!(@internal inner!(1),inner!(2));
    // mnc021 very short ones
    a!(b!());
    a![b![]];
    a!{b!{}}
}

fn nested_in_long_conditions(){
    /* mnc022 a long condition made of macro calls */
    if first_condition!(alpha,beta)&&second_condition!(gamma!(delta),epsilon)||third_condition!(zeta![eta],theta!{iota}){ then!() }
    // mnc023 nested in a long assert with a long message
    assert!(some_function(argument!(one),argument!(two))==expected!(three),"the values {} and {} did not match what was expected here: {}",argument!(one),argument!(two),expected!(three));
    debug_assert_eq!(vec![wrap!(first_long_argument_name),wrap!(second_long_argument_name)],vec![wrap!(third_long_argument_name)],);
}
