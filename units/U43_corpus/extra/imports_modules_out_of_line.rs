// rustfmt-edition: 2021
// Extra corpus (written for the checks, not taken from rustfmt): out-of-line module declarations (`mod name;`) with path attributes, cfg and cfg_attr, macro_use, visibility, and groups that rustfmt reorders. The named files do not exist: format this file through standard input.

// imo001 a group of plain declarations in the wrong order and with odd spacing
mod zebra;
mod   yak  ;
mod
xylophone
; // imo014 one token per line
mod Upper_case_module;
mod lower_case_module;
mod _leading_underscore;
/* imo015 names that end in numbers */
mod m1;
mod m10;
mod m2;
mod m02;
mod apple;

/* imo002 visibility on declarations, sorted together with private ones */
pub mod public_module;
pub(crate) mod crate_module;
pub ( crate ) mod crate_module_spaced ;
pub(super) mod super_module;
pub(self) mod self_module; // imo016 restricted to self
pub(in crate::some::path) mod path_module;
pub ( in   super :: super ) mod path_module_spaced;
mod private_module;
pub   mod   another_public_module  ;

// imo003 path attributes in several spellings
#[path="elsewhere.rs"] mod moved;
#[path = "dir/sub/deeper/file.rs"]mod deeply_moved;
#[ path   =   "spaced out.rs" ] mod spaced_attribute;
/* imo017 raw strings as paths */
#[path = r"raw\string\path.rs"] mod raw_string_path;
#[path = r#"raw "quoted" path.rs"#] mod raw_hash_string_path;
#[path = "../up/one/level.rs"] pub mod up_one_level;
#[path = "ünïcödé/名前.rs"] pub(crate) mod unicode_path;
#[path = "a/very/long/path/that/goes/through/a/great/many/directories/before/it/finally/reaches/the/file/that/holds/the/module.rs"] mod long_path;
#[path = "first.rs"] #[path = "second.rs"] mod two_paths; // imo018 two path attributes

/* imo004 cfg, cfg_attr and macro_use on declarations */
#[cfg(unix)] mod unix_only;
#[cfg(windows)]mod windows_only;
#[cfg(test)] mod tests;
#[macro_use] mod macros;
#[macro_use]#[cfg(feature="extra-macros")]pub(crate) mod extra_macros;
// imo019 the path depends on the platform
#[cfg_attr(unix,path="sys/unix.rs")] #[cfg_attr(windows,path="sys/windows.rs")] #[cfg_attr(not(any(unix,windows)),path="sys/unsupported_platform_fallback.rs")] mod sys;
#[cfg_attr(all(target_arch="x86_64",target_feature="avx2",not(feature="force-the-portable-implementation")),path="simd/x86_64_avx2.rs")] mod simd;
#[cfg(any(target_os="linux",target_os="android",target_os="freebsd",target_os="netbsd",target_os="openbsd",target_os="dragonfly"))] mod unix_like_platform;
#[allow(dead_code,unused_imports,)]#[deny(missing_docs)]#[doc(hidden)]pub mod heavily_attributed;

// imo005 documentation comments on declarations
/// A documented out-of-line module.
mod documented;
/** A block documented out-of-line module. */
pub mod block_documented;
#[doc = "documented by attribute"] mod attribute_documented;
/// Documentation before
#[cfg(feature = "x")]
/// and after an attribute
mod documentation_around_attribute;

/* imo006 raw identifiers, unicode names and very long names */
mod r#type;
mod r#fn;
pub mod r#match;
mod größe; /* imo020 names outside ascii follow */
mod 名前;
mod données;
mod ñandú;
mod a_module_with_an_exceedingly_long_name_that_takes_up_most_of_the_line_width_all_by_itself_and_then_some_more_to_be_sure;
pub(in crate::a_module_with_a_long_name::another_module_with_a_long_name::a_third_module_with_a_long_name) mod long_visibility;

// imo007 declarations interleaved with other kinds of items
mod k; use k::K; mod j; use j::J;
mod i; mod h; mod g;
fn between_declarations(){}
mod f;
/* imo008 a comment between two declarations */
mod e;
mod d; // imo009 trailing comment after a declaration
mod c; /* imo010 trailing block comment after a declaration */
mod b;

mod a;
extern crate after_the_modules;
// imo021 inline modules among the declarations
mod inline_one { fn f(){} }
mod before_inline;
mod inline_two {}
mod after_inline;

// imo011 declarations nested in inline modules, function bodies and blocks
mod outer { mod zz; mod yy; pub mod xx; #[path="ww.rs"] mod ww; mod inner { mod vv; mod uu; } }
#[path = "relocated"] mod relocated_inline { mod tt; #[path="ss_file.rs"] mod ss; }
fn function_with_declarations() {
    mod in_fn_b;mod in_fn_a;
    /* imo012 between statements that are declarations */
    #[path="fn/c.rs"] pub(crate) mod in_fn_c;
    let x = 1; // imo013 after a let
    { mod in_block; #[cfg(test)] mod in_block_tests; }
}
