// rustfmt-edition: 2021
// Extra corpus (written for the checks, not taken from rustfmt): macro_rules definitions without repetitions: every fragment kind, every delimiter, several arms, attributes, local definitions.

// mrf001 the simplest definitions, one per delimiter
macro_rules!empty{()=>{};}
macro_rules!   empty_paren(()=>());
macro_rules! empty_bracket[()=>[]];

/* mrf002 one definition per fragment kind so that each is formatted on its own */
macro_rules! f_block{ ($b:block)=>{ $b }; }
macro_rules! f_expr{ ($e:expr)=>{ $e+1 }; }
macro_rules! f_ident{ ($i:ident)=>{ let $i=1; }; }
macro_rules! f_item{ ($it:item)=>{ $it }; }
macro_rules! f_lifetime{ ($l:lifetime)=>{ fn f<$l>(x:&$l u8){} }; }
macro_rules! f_literal{ ($li:literal)=>{ $li }; }
// mrf003 between two definitions
macro_rules! f_meta{ ($m:meta)=>{ #[$m] struct   S; }; }
macro_rules! f_pat{ ($p:pat)=>{ match x{$p=>1,_=>2} }; }
macro_rules! f_pat_param{ ($pp:pat_param)=>{ match x{$pp|$pp=>1,_=>2} }; }
macro_rules! f_path{ ($pa:path)=>{ $pa::new() }; }
macro_rules! f_stmt{ ($s:stmt)=>{ $s; }; }
macro_rules! f_tt{ ($t:tt)=>{ $t }; }
macro_rules! f_ty{ ($ty:ty)=>{ <$ty>::default() }; }
macro_rules! f_vis{ ($v:vis)=>{ $v struct   T; }; }

/* mrf004 all fragment kinds in one matcher */
macro_rules! all_at_once{ ($b:block,$e:expr,$i:ident,$it:item,$l:lifetime,$li:literal,$m:meta,$p:pat,$pa:path,$s:stmt,$t:tt,$ty:ty,$v:vis)=>{ ($e,$li) }; }

// mrf005 several arms that can all be formatted
macro_rules! several_arms{
    ()=>{ 0 };
    ($a:expr)=>{ $a };
    ($a:expr,$b:expr)=>{ $a+$b };
    ($a:expr,$b:expr,$c:expr)=>{{ let t=$a+$b; t*$c }};
    (name=$n:ident)=>{ stringify!($n) };
}

/* mrf006 arms with different delimiters on each side */
macro_rules! d_paren{ ($a:expr)=>($a); }
macro_rules! d_bracket{ [$a:expr,$b:expr]=>[$a+$b]; }
macro_rules! d_brace{ {$a:expr,$b:expr,$c:expr}=>{$a+$b+$c}; }
macro_rules! d_double{ ($a:expr;$b:expr)=>{{ let t=$a; t*$b }}; }
macro_rules! d_mixed{ ($a:expr)=>{$a}; [$a:expr]=>{$a}; {$a:expr}=>{$a}; }

// mrf007 attributes on the definition and definitions in a module
#[macro_export] #[doc(hidden)]
macro_rules! exported{ ($x:expr)=>{ $crate::helper($x) }; }

/// A documented macro definition.
#[macro_export(local_inner_macros)]
macro_rules! documented{ ()=>{ exported!(1) }; }

#[macro_use] mod declares_macros{ macro_rules! inside_module{ ()=>{}; } }

/* mrf008 internal rules with at signs and literal tokens in the matcher */
macro_rules! i_at{ (@step $acc:expr;)=>{ $acc }; (@other $acc:expr=>$next:expr)=>{ $acc+$next }; }
macro_rules! i_fn{ (fn $name:ident()->$ret:ty=>$body:block)=>{ fn $name()->$ret $body }; }
macro_rules! i_keywords{ (if $c:expr;then $t:expr;else $e:expr)=>{ if $c{$t}else{$e} }; }
macro_rules! i_punct{ ($a:ident+=$b:expr)=>{ $a+=$b }; ($a:ident<-$b:expr)=>{ $a=$b }; ($a:ident=>$b:expr)=>{ $a=$b }; }

// mrf009 a long matcher and a long transcriber that do not fit in one line
macro_rules! long_arm{
    ($first_metavariable_name:expr,$second_metavariable_name:expr,$third_metavariable_name:expr,$fourth_metavariable:expr)=>{ some_function_with_a_long_name($first_metavariable_name,$second_metavariable_name,$third_metavariable_name,$fourth_metavariable) };
}

/* mrf010 the body generates items, impls and other macro definitions */
macro_rules! generate_impl{ ($t:ty)=>{ impl Trait for $t{ fn method(&self)->usize{ ::core::mem::size_of::<$t>() } } }; }
macro_rules! generate_struct{ ($v:vis struct $n:ident{$f:ident:$t:ty})=>{ $v struct $n{$f:$t} impl $n{ $v fn new($f:$t)->Self{ Self{$f} } } }; }
macro_rules! defines_a_macro{ ($name:ident)=>{ macro_rules! $name{ ()=>{ 1 }; } }; }

// mrf011 definitions inside functions and blocks
fn contains_definitions(){
    macro_rules! local{ ($x:expr)=>{ $x*2 }; }
    let a=local!(3);
    /* mrf012 a definition in a nested block followed by its use */
    { macro_rules!inner_local{ ()=>{ 0 } } inner_local!() };
}

// mrf013 no semicolon after the last arm and odd spacing around the arrow and the dollars
macro_rules! no_last_semicolon{ ( $ a : expr )   =>   { $ a } ; ( $ a : expr , $ b : expr )=>{ $ a + $ b } }

/* mrf014 unicode and raw identifiers and dollar crate */
macro_rules! größe{ ($länge:expr)=>{ $crate::r#mod::r#fn($länge,"ßüé→") }; }
macro_rules! r#try{ ($r#type:expr)=>{ $r#type? }; }

// mrf015 bodies with control flow, closures, strings containing braces and dollars
macro_rules! body_control{ ($c:expr,$v:ident)=>{ if $c{ for $v in 0..10{ println!("{{}} {} $", $v); } }else{ loop{ break; } } }; }
macro_rules! body_closure{ ($f:ident)=>{ let $f=|a:u8,b:u8|->u8{ a.wrapping_add(b) }; }; }
macro_rules! body_match{ ($e:expr)=>{ match $e{ Some(x) if x>0=>x, Some(_)|None=>0, } }; }
