// rustfmt-edition: 2021
// Extra corpus (written for the checks, not taken from rustfmt): a macro 2.0 definition written in the several-arm form but with one arm only is rewritten into the single-arm form, which drops the `=>` token and the outer braces.

pub macro one_arm_in_braces{ ($a:expr)=>{ $a } }

macro one_arm_with_semicolon{ ($a:expr,$b:expr)=>{ $a+$b }; }
