// rustfmt-edition: 2021
// Extra corpus (written for the checks, not taken from rustfmt): FINDINGS, kept apart from the main files: type constructs whose tokens rustfmt changes (not only separators, parentheses or braces).

// ftk001 attributes on the parameters of a bare function type are dropped
type K1=fn(#[allow(unused)]u8,#[cfg(any())]u16);
fn k1(){let j:fn(#[allow(unused)]u8,#[cfg(any())]u16)=k;}

// ftk002 an empty binder is dropped
type K2=for<>fn();

// ftk003 the colon of an empty bound list on a generic parameter is dropped (kept in a where clause)
fn k3<T:>()where T:{}

// ftk004 the path separator before generic arguments in a type is dropped
type K4=a::b::<u8>::C::<u16>;
type K5=a::Fn::(u8)->u8;

// ftk005 empty angle brackets are dropped
type K6=Vec<>;
fn k6(){let r=size_of::<Option<Vec<>>>();}

// ftk006 an implicit ABI is made explicit (force_explicit_abi, documented)
type K7=extern fn(u8);

// ftk007 a raw string ABI becomes an ordinary string
type K8=extern r"C" fn();
type K9=extern r#"C"# fn();
