// rustfmt-edition: 2021
// Extra corpus (written for the checks, not taken from rustfmt): groups of imports separated by blank lines, comments, attributes and other items, each group unsorted, with trailing comments that must travel with their import.

// igc001 first group, three imports out of order
use std::collections::HashMap;
use std::cell::RefCell;
use std::any::Any;

// igc002 second group after one blank line
use serde::Serialize;
use anyhow::Result;
use log::{warn,info,error,debug,trace};



/* igc003 third group after three blank lines */
use crate::zeta::Zeta;
use crate::alpha::Alpha;
use super::sibling;
use self::child::Child;
use ::leading::colons;
// igc004 a comment in the middle of a group splits nothing or something
use crate::beta::Beta;
use crate::aaa::First;
/* igc005 a block comment in the middle */
use crate::omega::Omega;
use crate::gamma::Gamma;

// igc006 trailing comments must stay with their imports when those move
use z::last; // igc007 belongs to z last
use y::middle; /* igc008 belongs to y middle */
use x::first; // igc009 belongs to x first
use w::{d,c,b,a}; // igc010 belongs to the w list
use v::only;

/* igc011 the same with a trailing comment on the final import of the group */
use q::three;
use p::two; // igc012 belongs to p two
use o::one; /* igc013 belongs to o one, the final import */

// igc014 groups delimited by other kinds of items
use n::b;use n::a;
fn between_the_imports() {}
use m::b;use m::a;
struct AlsoBetween;
use l::b;
use l::a;
mod inline_between {}
use k::b;
use k::a;
mod out_of_line_inside_fn_only {}
extern crate between_crate;
use j::b;
use j::a;
macro_call_between!();
use i::b;
use i::a;
const BETWEEN: u8 = 0; use h::b; use h::a; static ALSO: u8 = 1;

/* igc015 attributes and documentation inside a group */
use g::zz;
#[cfg(feature = "yy")] use g::yy;
use g::xx;
#[cfg(not(feature = "yy"))]
#[allow(unused_imports)]
use g::ww;
/// Documentation on an import in the middle of a group.
use g::vv;
use g::uu;
#[macro_use] use g::tt;
use g::ss;

// igc016 public and private imports mixed in one group
pub use f::d;
use f::c;
pub(crate) use f::b;
use f::a;
pub use f::{h,g};
pub(super) use f::e;

/* igc017 the same path imported several times in a group */
use e::a;
use e::a;
use e::{a};
use e::a as a2;
use e::{b,a};
use e::*;

// igc018 long imports that need wrapping between short ones
use d::short;
use d::a_module_with_a_rather_long_name::{FirstTypeWithALongName,SecondTypeWithALongName,ThirdTypeWithALongName,fourth_function_with_a_long_name};
use d::a;
use d::{z_nested::{z_inner::{deep_b,deep_a},z_other},y_flat,x_flat};

/* igc019 groups inside a function body, separated by blank lines and comments */
fn function_with_groups() {
    use c::b;
    use c::a;

    use b::b;
    use b::a; // igc020 trailing in a body
    // igc021 a comment between imports in a body
    use a::b;
    use a::a;
    let x = 0;
    use a::after_let_b;use a::after_let_a;
}
mod module_with_groups { use z::z; use a::a;

use y::y; use b::b; /* igc022 trailing in a module */
}
