// rustfmt-edition: 2021
// Extra corpus (written for the checks, not taken from rustfmt): const generic parameters with and without defaults, const arguments as literals, paths, blocks and negative numbers, in types, calls, impls and bounds.

// cgn001 declarations
struct A1<const N:usize>;
struct A2 < const   N : usize > ( [ u8 ; N ] ) ;
struct A3<const N:usize=3>;
struct A4<const N:usize={1+2}>;
struct A5<T,const N:usize,const M:usize=N>([[T;N];M]);
struct A6<'a,T:'a,const N:usize,>(&'a[T;N]);
struct A7<const B:bool,const C:char,const I:i8,const U:u128>;
struct A8<const N : usize = { usize :: MAX } , const M:usize={N}>;   // cgn002 defaults with blocks
struct A9<#[cfg(any())]const N:usize,#[allow(unused)]const M:usize>;
struct A10<const r#type:usize,const GRÖSSE:usize>;
/* cgn003 a long declaration */
struct VeryLongConstGenericStructNameForTheChecks<const SOME_VERY_LONG_CONSTANT_PARAMETER_NAME_ONE: usize = { 1 + 2 + 3 }, const SOME_VERY_LONG_CONSTANT_PARAMETER_NAME_TWO: usize = { SOME_VERY_LONG_CONSTANT_PARAMETER_NAME_ONE * 2 }, SomeTypeParameter = ()>(SomeTypeParameter);

// cgn004 arguments in type position
type T1=A1<3>;
type T2 = A1 < 3 > ;
type T3=A1<{3}>;
type T4=A1<{ N+1 }>;
type T5=A1<N>;
type T6=A1<{N}>;
type T7=A7<true,'x',-1,0xFFFF_FFFF_FFFF_FFFF_u128>;
type T8=A7<{!false},{'\u{1F600}'},{-(-1)},{u128::MAX}>;
type T9=A1<{size_of::<[u8;4]>()}>;
type T10=A1<{const fn f()->usize{1}f()}>;
type T11=A5<A5<A5<u8,1,2>,3,4>,5,6>;
type T12=A1<{if X{1}else{2}}>;
type T13=A1<{match X{_=>1,}}>;
type T14=A1<{{{1}}}>;
type T15=A1<-1>;
type T16=A1<{ }>;
type T17=S<"str",b"bytes",1.5,b'x'>;
type T18=A1<_>;
/* cgn005 a long argument list */
type VeryLongConstArgumentAlias = VeryLongConstGenericStructNameForTheChecks<{ SOME_VERY_LONG_CONSTANT_NAME_NUMBER_ONE + SOME_VERY_LONG_CONSTANT_NAME_NUMBER_TWO }, { SOME_VERY_LONG_CONSTANT_NAME_NUMBER_THREE * SOME_VERY_LONG_CONSTANT_NAME_NUMBER_FOUR }, SomeVeryLongTypeNameNumberOne>;

fn f1<const N:usize>(){}
fn f2 < const   N : usize , const M:usize,>( a : [ u8 ; N ] ,/* cgn006 between parameters */ b:[[u8;N];M] ) -> [ u8 ; N ] { a }
fn f3<T,const N:usize>(x:[T;N])->[T;N]where[T;N]:Default,A1<N>:Tr,A1<{N+1}>:Tr{x}
fn f4<const N:usize>()->impl Iterator<Item=[u8;N]>+Tr2<N>+Tr3<{N},K={N}>{loop{}}
fn f5(x:&dyn Tr2<3>,/* cgn007 before the second */y:Box<dyn Tr3<{1+2},K=3>>){}
fn f6<const SOME_VERY_LONG_CONSTANT_PARAMETER_NAME_ONE: usize, const SOME_VERY_LONG_CONSTANT_PARAMETER_NAME_TWO: bool>(first_parameter: [[u8; SOME_VERY_LONG_CONSTANT_PARAMETER_NAME_ONE]; SOME_VERY_LONG_CONSTANT_PARAMETER_NAME_ONE]) -> A7<SOME_VERY_LONG_CONSTANT_PARAMETER_NAME_TWO, 'c', { -1 }, { SOME_VERY_LONG_CONSTANT_PARAMETER_NAME_ONE as u128 }> { loop{} }

enum E<const N:usize>{
    A([u8;N]), // cgn008 an array variant
    /* cgn009 before the struct variant */
    B{x:A1<N>,y:A1<{N*2}>},
    C=N as isize,
}

trait Tr2<const N:usize=0>{
    const K:usize=N;
    // cgn010 between trait items
    type A<const M:usize>:Tr2<M>where Self:Tr2<M>;
    fn f<const M:usize>(&self)->[u8;M];
}

impl<const N:usize>Tr2<N>for A1<N>{}
impl < const   N : usize > A1 < N > { fn g<const M:usize>(self)->A1<{N+M}>{A1} } // cgn011 an inherent impl
impl Tr2<3>for A1<3>{}
impl Tr2<{1+2}>for A1<{1+2}>where A1<{1+2}>:Sized{}
impl<T,const N:usize,const M:usize>Tr for A5<T,N,M>where[(); N*M]:,[();{N+M}]:Sized{}

fn body(){
    let a=A1::<3>;
    let b = A1 :: < { 3 } > ; // cgn012 braces around a literal
    let c=f1::<3>();
    /* cgn013 blocks as arguments in calls */
    let d=f1::<{N+1}>();
    let e=f2::<2,3>([0;2],/* cgn014 an argument remark */[[0;2];3]);
    let f:A7<true,'x',-1,1>=A7;
    let g=A7::<{true&&false},{'a'},{-128},{1<<127}>;
    let h=x.method::<3>().other::<'static,u8,{3},>();
    let i=<A1<3>as Tr2<3>>::K;
    let j=<A1<{N}>>::g::<{M}>(a);
    // cgn015 a long turbofish
    let k = some_function_with_const_arguments::<{ SOME_VERY_LONG_CONSTANT_NAME_NUMBER_ONE }, { SOME_VERY_LONG_CONSTANT_NAME_NUMBER_TWO + 1 }, SomeVeryLongTypeNameNumberOne>(first_argument);
    let l:[u8;{const N:usize=3;N}]=[0;3];
    let m=[0u8;N];
    let n=[[0u8;{N}];{M}];
    let o:A1<{let x=1;let y=2;x+y}>=A1;
    let p=A1::<{unsafe{core::mem::transmute::<u64,usize>(1)}}>;
}

const K0:usize=3;
static   K1 : A1 < { K0 } > = A1 ; /* cgn016 last remark */
