// rustfmt-edition: 2021
// Extra corpus (written for the checks, not taken from rustfmt): block doc comments, outer and inner, with and without leading stars, nested, and the doc attribute written out (doc = "...", doc(...)).
/*! Inner block doc comment of the file (adb901). */
/*!
 * With leading stars.
 *
 *   Odd    indentation.
 * A very long line of the inner block documentation comment which certainly does not fit into one hundred columns, not at all.
 */
/*!
Without leading stars.

    indented code
*/
#![doc="an inner doc attribute written out"]
#![doc(html_logo_url="https://example.invalid/logo.png",html_favicon_url="https://example.invalid/favicon.ico",html_playground_url="https://example.invalid/play")]
#![doc(test(attr(deny(warnings),allow(unused))),issue_tracker_base_url="https://example.invalid/issues/")]

// adb001 ordinary comment after the inner docs
/** One line block doc (adb902). */fn a(){}
/**No spaces.*/fn b(){}
/**
 * Stars.
 *
 * ```
 * let x   =   1 ;
 * ```
 *
 * * a list item
 * * another one which is rather long, so long in fact that it goes beyond the one hundred column limit of the default
 */
pub fn c(){}
/* adb002 ordinary block comment between documented items */
/**
No stars here.
    Indented line.
  Less indented line.

| a | table |
|---|-------|
| 1 | 2     |

[link]: https://example.invalid/
*/
struct D{
    /** Field doc (adb903). */a:u8,
    /**
     * Multi line field doc.
     */
    pub b:u8, // adb003 trailing comment after a documented field
    /** first */ /** second */ #[allow(unused)] /** third */ c:u8,
}
/** Nested /* block comment */ inside a doc comment (adb904). */
enum E{
    /** Variant doc. */A,
    /**
      Oddly
    indented
          variant doc.
    */
    B(/** Tuple field doc. */u8),
    /* adb004 ordinary block comment between variants */
    /** Struct variant. */C{/** Its field. */x:u8},
}
/// Line doc first,
/** then a block doc, */
/// then a line doc again (adb905).
#[doc="then the attribute form,"]
#[doc=r"a raw string,"]
#[doc=r#"a raw string with "quotes" and hashes,"#]
#[doc="a string with escapes \n \t \\ \" \u{e9} and a line \
    continuation,"]
#[doc="a string
over two lines"]
#[doc   =   "odd spacing"]
#[doc="a very long documentation string in attribute form, which does not fit into one hundred columns whatever the formatter tries"]
trait F{
    /** Method doc. */fn f(&self);
    // adb005 comment between trait items
    #[doc="attribute form on a method"]#[doc(hidden)]fn g(&self);
    #[doc(alias="h_alias")]#[doc(alias("one","two","three"))]#[doc(alias="x",alias="y")]type H;
}
#[doc(hidden)]#[doc(inline)]#[doc(no_inline)]#[doc(cfg(feature="x"))]#[doc(keyword="match")]#[doc(primitive="u8")]#[doc(notable_trait)]#[doc(fake_variadic)]#[doc(masked)]mod g{}
#[doc=include_str!("../README.md")]#[doc=concat!("a ","concatenated"," doc",stringify!(x))]#[cfg_attr(doc,doc=include_str!("a/rather/long/path/to/a/markdown/file/which/is/included/as/documentation/of/this/item.md"))]struct H;
#[doc=""]#[doc]#[doc()]#[doc(,)]#[doc=1]#[doc=b"bytes"]#[doc='c']struct I;
mod m{
    /*! Inner block doc of a module (adb906). */
    /*!
     * Second inner block doc.
     */
    /** Nested function. */fn f(){
        /*! Inner block doc of a function (adb907). */
        /** Doc on a local item. */struct L;
        /* adb008 ordinary block comment between statements */
        /** Doc on a let statement. */let x=1;
        /** Doc on an expression statement. */x;
        // adb006 comment after the statements
    }
}
impl D{
    /*! Inner block doc of an impl (adb908). */
    /**
     * Doc comment of a method
     * with several lines and ünïcödé: 日本語, 🦀.
     **/
    #[inline]fn g(&self){}
    /** Another one. */const K:u8=0;
}
// adb007 an almost empty block doc comment follows
/** */
fn z(){}
/**
 * Doc at the very end (adb909). */
extern "C"{
    /** Foreign function doc. */fn h();
    /** Foreign static doc. */#[doc(hidden)]static S:u8;
}
