// rustfmt-edition: 2021
// Extra corpus (written for the checks, not taken from rustfmt): closure expressions of every shape: parameters, return types, move/async/static, bodies that are blocks or other expressions, closures as arguments.

// clo001 the smallest closures
fn tiny(){
let a=||();let b=||{};let c=|x|x;let d = | x , y | x + y ;let e=|x,|x; // clo002 trailing comma in the parameter list
let f = | | 1 ; let g = || || || 1 ; let h = |x| |y| |z| x+y+z ; /* clo003 closures returning closures */
let i = move||x ; let j = move |x| x ; let k = async||x ; let l = async move||x ; let m = static||{yield x;} ; let n = static move |_| {} ;
    let o = async |x:u8| -> u8 {x} ; let p = for<'a> |x:&'a u8| -> &'a u8 {x} ; let q = for<> || {} ; // clo004 binder on a closure
}

// clo005 parameters with patterns and types
fn parameters(){
let a = |x:u8,y:&str,z:&mut Vec<u8>| x ; let b = |(a,b):(u8,u8)| a+b ; let c = |Point{x,y}:Point| x+y ; let d = |&x,&mut y,ref z,ref mut w| x ;
let e = |[a,b,..]:[u8;4]| a ; let f = |_,_,_| 0 ; let g = |mut x| {x+=1;x} ; let h = |x@1..=5| x ; /* clo006 binding and range pattern */
let i = |Some(x)|x ; let j = |(Some(x)|None::<u8>)| () ; let k = |#[attr] x , #[cfg(any())] y : u8| x ; // clo007 attributes on closure parameters
let l = |first_parameter_with_a_long_name: SomeLongTypeName, second_parameter_with_a_long_name: AnotherLongTypeName, third: Third| first_parameter_with_a_long_name;
let m = |r#fn , r#match : r#type| r#fn ; let n = |größe:u8,длина:u8| größe+длина ;
    let o = | x : impl_trait::Type<'_ , T> , y : Box<dyn Fn(u8)->u8> , z : fn(u8)->u8 | z(y(x.0)) ;
}

/* clo008 return types force a block body */
fn return_types(){
let a = ||->u8{1} ; let b = |x|->Result<u8,Box<dyn Error>>{Ok(x)} ; let c = move|x:u8|->u8{x+captured} ; let d = || -> () {} ; let e = || -> ! {loop{}} ;
let f = |x| -> (u8,u8,) {(x,x)} ; let g = || -> [u8;2] {[0;2]} ; let h = || -> impl Fn()->u8 {||1} ; // clo009 closure type returning a closure
let i = |first_parameter_with_a_long_name: SomeLongTypeName, second_parameter_with_a_long_name: AnotherLongTypeName| -> SomeVeryLongReturnTypeName<WithArgument> { first_parameter_with_a_long_name.convert(second_parameter_with_a_long_name) };
}

// clo010 bodies that are not blocks
fn expression_bodies(){
let a = |x| if x {1} else {2} ; let b = |x| match x {Some(y)=>y,None=>0,} ; let c = |x| loop{break x} ; let d = |x| while x{} ; let e = |x| for _ in x {} ;
let f = |x| unsafe{x.get()} ; let g = |x| async{x} ; let h = |x| async move{x.await} ; let i = |x| 'label:{break 'label x} ; let j = |x| const{1}+x ;
let k = |x| return x ; let l = || break ; let m = || continue 'outer ; let n = |x| x? ; let o = |x| x.await ; let p = |x| x as u8 ; /* clo011 jumps and postfix as bodies */
let q = |x| (x,x) ; let r = |x| [x,x] ; let s = |x| [x;2] ; let t = |x| S{x} ; let u = |x| S{x,..d} ; let v = |x| &x ; let w = |x| &mut *x ; let y = |x| -x ; let z = |x| !x ;
let aa = |x| x.y.z ; let ab = |x| x[0] ; let ac = |x| x..x ; let ad = |x| ..x ; let ae = |x| x=1 ; let af = |x| x+=1 ; let ag = |x| f(x) ; let ah = |x| m!(x) ; // clo012 more bodies
let ai = |x| {x} ; let aj = |x| {{x}} ; let al = |x| {x;} ; let am = |x| {/* clo013 comment only body */} ; let an = |x| ({x}) ;
let ao = |some_parameter| some_parameter.first_method_call().second_method_call(with_argument).third_method_call().fourth_method_call(another);
let ap = |some_parameter| some_parameter_operand_one_long + some_parameter_operand_two_long * some_parameter_operand_three_long - some_parameter;
}

// clo014 closures as arguments
fn as_arguments(){
f(||1);f(|x|x,);f(a,|x|x);f(|x|x,a);f(|x|x,|y|y); // clo015 closure first, last, both
f(a,|x|{let y=x+1;y*2});f(|x|{let y=x+1;y*2},a); x.f(|y|{g(y);}) ; x.f(move|y|{g(y);h(y)}).i() ;
/* clo016 last argument closure with a long block, the rest must stay on the first line */
thread::spawn(move||{let received = receiver.recv().unwrap(); /* clo017 in the block */ process(received); sender.send(Done).unwrap();});
some_function_with_a_long_name(first_ordinary_argument, second_ordinary_argument, |closure_parameter_one, closure_parameter_two| { closure_parameter_one + closure_parameter_two });
items.iter().map(|item| item.value).filter(|value| *value > threshold_value_with_long_name).fold(initial_accumulator_value, |accumulator, value| accumulator + value);
x.sort_by(|a,b|b.partial_cmp(a).unwrap()) ; x.sort_by_key(|&(a,_)|a) ; x.retain(|_|false) ; x.for_each(drop) ; // clo018 short ones
let r = catch_unwind(AssertUnwindSafe(||{body_of_the_closure_call_number_one();body_of_the_closure_call_number_two()}));
f(|x| match x {A=>1,
/* clo019 in a match in a closure in a call */ B=>2,_=>3}) ; f(|x| if x {a} else {b}) ; f(|| loop{}) ;
f(|| -> u8 {1}, || -> u8 {2}) ; f(#[attr] |x| x) ; f(#[attr] move |x| {x}) ; // clo020 attribute on a closure argument
}

// clo021 closures in other positions
fn other_positions(){
let a = (|x|x)(1) ; let b = (|x|x+1)(1)+(|y|y*2)(2) ; let c = [|x|x,|y|y] ; let d = (|x|x,|y|y) ; let e = S{f:|x|x,g:move||1} ;
let f = if c {|x|x} else {|y|y+1} ; let g = match x {_=>|y|y} ; let h = match x {_ if (|y|y)(true)=>1,_=>2} ; /* clo022 closure in a guard */
let i = &|x|x ; let j = &mut|x|x ; let k = Box::new(|x|x) as Box<dyn Fn(u8)->u8> ; let l = (|x|x) as fn(u8)->u8 ; let m = Some(|x|x).map(|f|f(1)) ;
let n = |x| |y| { |z| { x + y + z } } ; let o = || { || { || {} } } ; return |x| x ; // clo023 nested with blocks
}
