// rustfmt-edition: 2021
// Extra corpus (written for the checks, not taken from rustfmt): deeply nested generic argument lists, closing angle brackets in a row, defaults of type parameters, turbofish chains, empty and single-element argument lists.

// ngn001 short nestings
type G1=Vec<u8>;
type G2 = Vec < Vec < u8 > > ;
type G3=Vec<Vec<Vec<Vec<Vec<Vec<Vec<Vec<u8>>>>>>>>;
type G4=HashMap<String,Vec<Option<Result<Box<u8>,Rc<RefCell<Weak<u8>>>>>>>;
type G5=Vec;
type G6=Vec<u8,>;
type G7 = Result < ( ) , ( ) > ;   // ngn002 units as arguments
type G8<T=u8,U=Vec<T>,V=HashMap<T,U>>=(T,U,V);
type G9<T,>=Vec<T,>;
type G10=Option<Option<Option<Option<Option<Option<Option<Option<Option<Option<Option<Option<u8>>>>>>>>>>>>;
type G11=Result<Result<Result<u8,u16>,Result<u32,u64>>,Result<Result<i8,i16>,Result<i32,i64>>>;
type G12<'a>=Cow<'a,[Cow<'a,[Cow<'a,str>]>]>;
type G13=Arc<Mutex<HashMap<(u8,u16),Vec<Box<dyn Fn(&HashMap<String,Vec<u8>>)->Option<Arc<Mutex<Vec<u8>>>>+Send+Sync>>>>>;
/* ngn003 one that needs several lines */
type VeryLongNestedAlias<'lifetime, FirstTypeParameter, SecondTypeParameter = Vec<FirstTypeParameter>> = HashMap<SomeVeryLongTypeNameNumberOne<'lifetime, FirstTypeParameter>, BTreeMap<SomeVeryLongTypeNameNumberTwo<SecondTypeParameter>, Vec<Option<Result<SomeVeryLongTypeNameNumberThree<'lifetime>, SomeVeryLongErrorTypeName<FirstTypeParameter, SecondTypeParameter>>>>>>;

struct S<'a,T:'a=(),U=Vec<T>,const N:usize=0>where U:'a{
    a:Vec<Vec<T>>, // ngn004 a nested vector
    /* ngn005 before the map */
    b : HashMap < & 'a str , Vec < ( U , [ T ; N ] ) > > ,
    c:PhantomData<fn(Vec<Vec<T>>)->Vec<Vec<U>>>,
    d:Option<Box<S<'a,T,U,N>>>, // ngn006 a recursive field
    e:Pin<Box<dyn Future<Output=Result<Vec<Option<T>>,Box<dyn Error+Send+Sync+'a>>>+Send+'a>>,
    f:core::iter::Map<core::iter::Filter<core::slice::Iter<'a,T>,fn(&&'a T)->bool>,fn(&'a T)->U>,
}

enum E<T,U=T>{
    A(Vec<Vec<T>>),
    // ngn007 between variants
    B{x:Option<Option<U>>,y:Result<Vec<T>,Vec<U>>},
    C(PhantomData<(T,U)>), /* ngn008 after the last variant */
}

fn f1<T>(x:Vec<Vec<T>>)->Option<Option<T>>{None}
fn f2<T , U , > ( x : HashMap < T , Vec < U > > ,/* ngn009 between parameters */ y:Option<Box<dyn Fn(Vec<T>)->Vec<U>>> ) -> Result < Vec < Option < T > > , Box < dyn   Error > > { loop { } }
fn f3<T:Into<Vec<Vec<u8>>>+From<Option<Option<u8>>>,U:AsRef<[Vec<T>]>>(){}
fn f4<SomeVeryLongTypeParameterName: SomeVeryLongTraitNameNumberOne<Vec<Option<SomeVeryLongTypeNameNumberOne>>>, AnotherVeryLongTypeParameterName: SomeVeryLongTraitNameNumberTwo<HashMap<SomeVeryLongTypeNameNumberTwo, Vec<SomeVeryLongTypeParameterName>>>>(first_parameter_name: HashMap<SomeVeryLongTypeParameterName, Vec<Option<AnotherVeryLongTypeParameterName>>>) -> Result<Vec<Option<Box<SomeVeryLongTypeNameNumberThree<SomeVeryLongTypeParameterName>>>>, SomeVeryLongErrorTypeName<AnotherVeryLongTypeParameterName>> { loop{} }

trait Tr4<T=Self,U=Vec<T>>:Tr5<Vec<Vec<T>>,Option<Option<U>>>{
    type A<V>:Tr5<Vec<V>,Option<T>>;
    // ngn010 between trait items
    fn m<W>(&self,w:Vec<Vec<W>>)->Self::A<Vec<W>>;
}

impl<T,U>Tr4<Vec<Vec<T>>,Option<Option<U>>>for S<'_,Vec<T>,Option<U>>where Vec<Vec<T>>:Clone,Option<Option<U>>:Clone{}
impl<T>From<Vec<Vec<T>>>for E<T>{fn from(v:Vec<Vec<T>>)->Self{E::A(v)}} // ngn011 a conversion impl

fn body(){
    let a:Vec<Vec<u8>>=Vec::new();
    let b = Vec :: < Vec < u8 > > :: new ( ) ; // ngn012 a spaced out turbofish
    let c=HashMap::<String,Vec<Option<u8>>>::with_capacity(1);
    /* ngn013 turbofish on methods */
    let d=it.collect::<Vec<Vec<_>>>();
    let e=it.map(Into::<Vec<Vec<u8>>>::into).collect::<Result<Vec<Vec<Vec<u8>>>,Box<dyn Error>>>()?;
    let f=x.a::<A<B<C>>>().b::<D<E<F>>>().c::<G<H<I>>>().d::<J<K<L>>>().e::<M<N<O>>>().f::<P<Q<R>>>();
    let g=a<b&&c>d;
    let h=(a<b)==(c>d);
    let i=a as Vec<Vec<u8>>;
    let j=a as usize>>2;
    // ngn014 shifts next to generics
    let k=(a as usize)<<(b as usize);
    let l=Vec::<u8>::new()<Vec::<u8>::new();
    let m=S::<'static,Vec<u8>,Option<u16>,{1>>1}>{a:vec![],..s};
    let n=E::<Vec<u8>>::B{x:None,/* ngn015 between field initialisers */y:Ok(vec![])};
    let o:Box<dyn FnOnce(Vec<Vec<u8>>)->Box<dyn FnOnce(Vec<Vec<u16>>)->Box<dyn FnOnce(Vec<Vec<u32>>)->Vec<Vec<u64>>>>>=p;
    let q = some_object.some_method_name::<SomeVeryLongTypeNameNumberOne<SomeVeryLongTypeNameNumberTwo<SomeVeryLongTypeNameNumberThree>>, HashMap<SomeVeryLongTypeNameNumberFour, Vec<SomeVeryLongTypeNameNumberFive>>>(first_argument);
    let r=size_of::<Option<Vec<(),>>>()+size_of::<Vec<u8,>>()+size_of::<HashMap<u8,u8,>>();
    if let Some::<Vec<Option<u8>>>(s)=t{}
    match u{None::<Vec<Vec<u8>>> =>(),Some::<Vec<Vec<u8>>>(_)=>(),}
}

static N1:Option<Option<Option<u8>>>=None;
const N2 : PhantomData < PhantomData < PhantomData < ( ) > > > = PhantomData ; /* ngn016 last remark */
