// rustfmt-edition: 2021
// Extra corpus (written for the checks, not taken from rustfmt): enums with unit, tuple and struct variants, explicit discriminants of many shapes, attributes on variants.

enum   E0{}
enum E0s { }
enum E0n {
}
enum E1{A}
enum E1c{A,}
pub enum E2 { A , B , C }
pub(crate)enum E3{A=1,B=2,C=3,}
// enu001 discriminants written as unusual literals
#[repr(u64)]enum Lits{Dec=10,Hex=0xFF,HexLower=0xff_u64,Oct=0o77,Bin=0b1010_1010,Under=1_000_000,Suffixed=7u64,Char=b'a' as u64,Big=0xFFFF_FFFF_FFFF_FFFF,Zero=0}
#[repr(i8)]enum Negs{A=-1,B=-0x80,C= - 3,D=!0,E=-(4),F=(5),G=((6))}
/* enu002 discriminants written as expressions */
#[repr(isize)]enum Exprs{A=1+2,B=1<<4,C=Self::A as isize+1,D=CONSTANT,E=path::to::CONSTANT*2,F=size_of::<u32>()as isize,G={7},H={let x=8;x},I=if true{9}else{10},J=match 1{_=>11},K=(1+2)*3,L=b'\n' as isize,M=i8::MAX as isize,N=!0^0xF0,O=1_isize.pow(2)}
enum LongDiscriminant{AVariantWithALongName=SOME_CONSTANT_WITH_A_LONG_NAME+ANOTHER_CONSTANT_WITH_A_LONG_NAME*YET_ANOTHER_CONSTANT_WITH_A_LONG_NAME,B=1}
enum Aligned{A=1,Bbbbbbbbbbbbb=2,Cc=3,
    Dddddddddddddddddddddddddddddd=4,E}
// enu003 tuple and struct variants mixed with discriminants
#[repr(u8)]enum Mixed{Unit=1,Tuple(u8,u16)=2,TupleEmpty()=3,Struct{a:u8,b:u16}=4,StructEmpty{}=5,Single(u8,)=6,SingleField{a:u8,}=7,Plain}
enum Variants{A(),B{},C(u8),D{a:u8},E(u8,u16,u32),F{a:u8,b:u16,c:u32},G((u8,u16)),H([u8;4]),I(Box<Variants>),J{r#type:u8},K(fn(u8)->u8),L(&'static str),M(!),}
enum LongVariants{ATupleVariantWithALongName(FirstFieldTypeWithALongName,SecondFieldTypeWithALongName,ThirdFieldType),AStructVariantWithALongName{first_field_with_a_long_name:FirstFieldTypeWithALongName,second_field_name:SecondFieldTypeWithALongName},Short(u8),}
enum VariantComments {
    A, // enu004 trailing comment after a unit variant
    /* enu005 block comment before a variant */ B = 2,
    // enu006 own line comment before a tuple variant
    C(u8),


    D { a: u8 }, /* enu007 block comment after a struct variant */
    E = 5 // enu008 comment after the last variant which has no comma
}
enum FieldComments {
    T(
        u8, // enu009 comment after a field of a tuple variant
        /* enu010 block comment before a field of a tuple variant */ u16,
    ),
    S {
        a: u8, // enu011 comment after a field of a struct variant
        // enu012 own line comment inside a struct variant
        b: u16,
    },
}
enum OnlyComment {
    // enu013 an enum body with only a comment
}
enum OnlyBlock { /* enu014 an enum body with only a block comment */ }
/* enu015 attributes on variants and on their fields */
#[derive(Debug,Clone)]#[repr(C,u8)]#[non_exhaustive]pub enum Attrs{
    #[default] A,
    #[cfg(feature="x")]#[deprecated(since="1.0",note="enu note")] B=2,
    /// enu016 doc comment on a variant
    C(#[serde(skip)] u8,#[allow(unused)] pub u16),
    #[non_exhaustive] D{#[serde(rename="z")] a:u8,/** enu017 block doc comment on a variant field */ b:u16},
    #[doc="doc attribute on a variant"] /** enu018 block doc comment on a variant */ E,
    #[an_attribute_with_a_long_name_and_arguments(first_argument="some value", second_argument="another value", third_one=3)] F,
}
// enu019 generics and where clauses on enums
enum G1<T>{A(T),B}
enum G2<'a,T:'a+?Sized,const N:usize=2>where T:Debug{R(&'a T),A([u8;N]),N}
enum AnEnumWithALongNameAndManyGenericParameters<'a,FirstTypeParameter,SecondTypeParameter,ThirdTypeParameter>{A(&'a FirstTypeParameter),B(SecondTypeParameter),C(ThirdTypeParameter)}
pub enum Opt<T>{None,Some(T)}
pub enum Res<T,E=Box<dyn std::error::Error+Send+Sync+'static>>{Ok(T),Err(E)}
/* enu020 odd names */
enum r#enum{r#fn,r#match=2,r#Self_}
enum Größe{Klein=1,Mittel=2,Groß=3,名前(String),Émoji{é:char}}
enum Short{A,B}
enum S{A=1}
fn local_enum(){enum L{A=1,B} #[repr(u8)] enum L2{X=b'x',Y=b'y'} /* enu021 enums declared inside a fn body */ let _=L::A as u8;}
enum SingleLongVariant{TheOnlyVariantOfThisEnumHasAVeryLongNameSoThatItDoesNotFitInTheNarrowWidthConfiguration=1}
enum ManyShortVariants{A,B,C,D,E,F,G,H,I,J,K,L,M,N,O,P,Q,R,S,T,U,V,W,X,Y,Z,Aa,Bb,Cc,Dd,Ee,Ff,Gg,Hh,Ii,Jj,Kk,Ll,Mm,Nn,Oo,Pp}
enum VisInVariants{A{pub a:u8},B(pub u8,pub(crate) u16)}
