// rustfmt-edition: 2021
// Extra corpus (written for the checks, not taken from rustfmt): range PATTERNS whose lower bound is a float literal ending in a bare dot (`1. ..=2.`), where the space before the range operator is part of the token boundary.

// fdp001 the inclusive range in a match arm
fn inclusive(x:f64)->u8{ match x{ 6. ..=7. =>6,
    // fdp002 between arms
    _=>0 } }

fn half_open(x:f64)->u8{
    match x { 1. .. => 1 ,
        /* fdp003 a range without an upper bound */
        _ => 0 }
}

fn exclusive(x:f64)->u8{
    // fdp004 with two dots only; without the space this would read as the old three dot range
    match x{ 0. ..2. =>2,_=>0 }
}

fn with_binding(x:f64)->f64{
    match x{ n@3. ..=4. =>n, /* fdp005 a binding in front of the range */
        m @ 5. ..=5.5 => m ,
        _=>0. }
}

fn negative_bounds(x:f64)->u8{
    match x{ -1. ..=-0.5 =>1, // fdp006 minus signs on both sides
        - 3. ..= - 2. => 2,
        _=>0 }
}

fn nested_in_other_patterns(y:(f64,[f64;3]),z:Option<f64>,w:&f64){
    // fdp007 inside a tuple, a slice, a tuple struct, a reference and an or pattern
    if let (1. ..=2.,[3. ..=4.,..])=y{ }
    if let Some(1. ..=2.)=z{}
    if let &(1. ..=2.)=w{}
    if let Some(0. ..=1.|2. ..=3.)=z{ }
    /* fdp008 in a let else and a while let */
    let Some(10. ..=20.)=z else{return;};
    while let Some(100. ..)=next(){ }
}

fn in_closures_and_parameters(){
    let f=|(1. ..=2.|_):f64|0;
    // fdp009 a suffix or a fraction removes the problem, for contrast
    match x{ 1.0..=2. =>1,1f64..=2. =>2, 1e0..=2. => 3,_=>0 };
}

fn expressions_for_contrast(){
    // fdp010 the same spelling as an expression keeps its space
    let a=6. ..=7.;let b = 1. ..;let c=0. ..2.;
    for _ in [0. ..1.]{}
    let m=matches!(x,1. ..=2.); /* fdp011 in a macro the tokens are kept */
}

struct Holder;
impl Holder{
    fn classify(&self,x:f32)->&'static str{
        match x{ 0. ..=0.25 =>"low", // fdp012 with string bodies
            0.25..=0.75=>"middle",
            0.75..=1. => "high" ,
            /* fdp013 before the last arm */
            _=>"outside" }
    }
}
