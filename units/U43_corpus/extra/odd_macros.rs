// rustfmt-use_try_shorthand: true
// Extra corpus (written for the checks, not taken from rustfmt): macro calls whose arguments are odd, in every position.
fn try_shapes(p: &str) -> Result<usize, E> {
    let a = try!(read(p));
    let b = try!(read(p)).len();
    let c = try!(read(p) +).len();
    let d = try!(, x).size;
    let e = try!(a b);
    let f = try!().len();
    let g = try!(read(p), extra).len()?;
    let h = r#try!(read(p) +);
    let i = try!(try!(read(p) +)).len();
    let j = try! { read(p) }.len();
    let k = try![read(p) =>].first();
    Ok(try!(read(p) + 1))
}

fn odd_arguments() {
    foo!(k => v ;; w);
    foo!(
        k => v ;; w,
        a_rather_long_argument_inside_a_macro_call_that_does_not_parse_as_an_expression => another_one ;; and_more
    );
    foo! {
        k => v ;; w
    }
    let x = foo!(a b c).method().another_method();
    let y = bar![1 2 3][0];
    let z = baz!(-> ->)?;
    match m {
        A => foo!(k => v ;; w),
        B => bar! { + + },
    }
    call(foo!(a b), bar!(, ,), baz!(; ;));
    vec![1; 2; 3];
    vec![1, 2; 3];
    matches!(x, );
    matches!(x, A | );
    println!("{}" "{}", 1);
    write!(f "{}", 1);
    assert!(a ==, "msg");
    format_args!(,);
    lazy_static! { static NOT ref X: u32 = 1; }
    cfg_if! { if unix { fn f() {} } }
    macro_rules! inner { (=> ) => { => }; }
}

foo!(item position ;; odd);
bar! { item position ;; odd }
baz![item position ;; odd];
