// rustfmt-edition: 2021
// Extra corpus (written for the checks, not taken from rustfmt): unary operators (negation, not, dereference, borrows, raw borrows), the try operator, await, and jump expressions (return, break, continue, yield) used as operands.

// una001 unary operators with odd spacing
fn unary_basic(){
let a=-x;let b = - x ;let c=!x;let d = ! x ;let e=*x;let f = * x ;let g=&x;let h = & x ;let i=&mut x;let j = & mut x ; // una002 every prefix operator twice
let k = --x ; let l = - - x ; let m = !!x ; let n = ! ! x ; let o = **x ; let p = * * x ; let q = &&x ; let r = & & x ; let s = &&mut x ; let t = &mut&mut x ;
/* una003 mixtures of different prefix operators */
let u = -!x ; let v = !-x ; let w = -*x ; let y = *-x ; let z = !*x ; let aa = *!x ; let ab = &-x ; let ac = -&x ; let ad = &!x ; let ae = !&x ; let af = &*x ; let ag = *&x ;
let ah = -(-x) ; let ai = -(-(x)) ; let aj = !(!x) ; let ak = *(*x) ; let al = &(&x) ; let am = (-x) ; let an = -(x) ; let ao = (-(x)) ; // una004 parentheses between prefix operators
let ap = &raw const x ; let aq = &raw mut x ; let ar = & raw const x.y ; let au = &raw mut x[0] ; let av = &raw const *x ; let aw = &raw ; let ax = &raw.field ; /* una005 raw as a plain name too */
let ay = -1 ; let az = - 1 ; let ba = -1.0 ; let bb = -1i8 ; let bc = -0x7f ; let bd = -(1) ; let be = - -1 ; let bf = -(-1) ; let bg = !0 ; let bh = !0u8 ; let bi = !true ; // una006 literals
}

// una007 unary operators against postfix and binary operators
fn unary_binding(){
let a = -x.y ; let b = (-x).y ; let c = -x.y() ; let d = (-x).y() ; let e = -x[0] ; let f = (-x)[0] ; let g = -x? ; let h = (-x)? ; let i = -x.await ; let j = (-x).await ;
let k = *x.y ; let l = (*x).y ; let m = *x.y() ; let n = (*x).y() ; let o = *x[0] ; let p = (*x)[0] ; let q = *x? ; let r = (*x)? ; let s = &x.y ; let t = (&x).y ; // una008 dereference and borrow
let u = -x as u8 ; let v = -(x as u8) ; let w = (-x) as u8 ; let y = &x as *const u8 ; let z = &(x as u8) ; let aa = *x as u8 ; let ab = *(x as *const u8) ; let ac = !x as u8 ;
let ad = -x+y ; let ae = -(x+y) ; let af = x+-y ; let ag = x- -y ; let ah = x-(-y) ; let ai = x*-y ; let aj = x&&!y ; let ak = !x&&y ; let al = !(x&&y) ; let am = x&&&y ; let an = x& &y ; /* una009 binary then prefix */
let ao = x**y ; let ap = x* *y ; let aq = x*(*y) ; let ar = x&*y ; let au = x&&*y ; let av = x&&&*y ; let aw = a< -b ; let ax = a<=-b ; let ay = a>-b ; let az = a==-b ; let ba = a=-b ; let bb = a-=-b ;
let bc = -x..-y ; let bd = ..-x ; let be = -x.. ; let bf = !x..=!y ; let bg = *x..*y ; let bh = &x..&y ; let bi = -(x..y) ; let bj = &(x..y) ; let bk = &(..) ; // una010 prefix and ranges
let bl = -some_very_long_operand_name_for_the_negation.with_a_method_call(argument_one).and_another_method_call(argument_two).and_a_third_one();
let bm = !some_very_long_condition_name_number_one && !some_very_long_condition_name_number_two && !(some_very_long_condition_three || other);
let bn = &mut *some_very_long_structure_name.some_very_long_field_name.lock().unwrap().some_inner_field_with_a_long_name.borrow_mut();
}

// una011 the try operator
fn try_operator()->Result<(),E>{
let a=x?;let b = x ? ;let c=x??;let d = x ? ? ? ;let e=f()?;let f = f ( ) ? ;let g=x.y?;let h=x.y()?;let i=x[0]?;let j=x?[0];let k=x?.y;let l=x?.y()?; // una012 try after every postfix form
let m = (x?) ; let n = (x)? ; let o = ((x)?)? ; let p = (x?)? ; let q = {x}? ; let r = (if a {b} else {c})? ; let s = (match a {_=>b})? ; let t = unsafe{x}? ; let u = (||x)()? ;
let v = x?+y? ; let w = x?*y?-z? ; let y = -x? ; let z = !x? ; let aa = *x? ; let ab = &x? ; let ac = x? as u8 ; let ad = x?..y? ; let ae = (x?,y?) ; let af = [x?,y?] ; let ag = S{a:x?,b:y?} ; /* una013 try inside other expressions */
let ah = f(x?,y?)? ; let ai = x?.f(y?)? ; let aj = x?(y?) ; let ak = (x?)(y?)? ; let al = m!(x)? ; let am = m![x]? ; let an = m!{x}? ; let ao = x.0? ; let ap = x.0?.1? ; let aq = "s".parse::<u8>()? ;
let ar = some_function_with_a_long_name(first_argument_with_a_long_name, second_argument_with_a_long_name, third_argument_long)?;
let au = some_object.first_method_in_the_chain()?.second_method_in_the_chain(argument)?.third_method_in_the_chain(another_argument)?.fourth()?;
x?;x??;f()?;{x}?;return Err(e)?;break x?;Ok(())?;Some(x?)?; // una014 try as whole statements
Ok(()) }

// una015 await
async fn awaiting(){
let a=x.await;let b = x . await ;let c=x.await.await;let d=f().await;let e=x.y.await;let f=x.y().await;let g=x[0].await;let h=x.await[0];let i=x.await.y;let j=x.await.y(); // una016 await after and before every postfix form
let k = x.await? ; let l = x?.await ; let m = x.await?.await? ; let n = (x.await) ; let o = (x).await ; let p = {x}.await ; let q = async{x}.await ; let r = (async move{x}).await ; let s = (||x)().await ;
let t = -x.await ; let u = !x.await ; let v = *x.await ; let w = &x.await ; let y = &mut x.await ; let z = x.await as u8 ; let aa = x.await+y.await ; let ab = x.await..y.await ; let ac = (x.await,y.await) ; /* una017 await inside other expressions */
let ad = f(x.await,y.await).await ; let ae = x.await(y) ; let af = (x.await)(y).await ; let ag = m!(x).await ; let ah = x.r#await ; let ai = x.await.r#await.await ; let aj = r#await.await ; // una018 raw identifier spelled like the keyword
let ak = some_client_with_a_long_name.send_request_with_a_long_name(request_argument_one, request_argument_two).await?.into_body().collect_all_of_it().await?;
let al = futures::future::join_all(some_collection_with_a_long_name.into_iter().map(|element| async move { element.process().await })).await;
if x.await {} while x.await {} match x.await {_=>{}} for y in x.await {} x.await ; return x.await ; // una019 await in control flow heads
}

// una020 jump expressions as operands
fn jumps(){
let a = return ; let b = return 1 ; let c = return return ; let d = return return return 1 ; let e = (return) ; let f = (return 1) ; let g = return (1) ; let h = return (1,2) ; let i = return {1} ; let j = return -1 ;
'l:loop{ let a = break ; let b = break 1 ; let c = break 'l ; let d = break 'l 1 ; let e = break 'l (1) ; let f = break 'l {1} ; let g = break break ; let h = break 'l break 'l 1 ; let i = continue ; let j = continue 'l ; let k = break -1 ; let m = break 'l -1 ; }
let k = return+1 ; let l = (return)+1 ; let m = 1+return ; let n = 1+return 2 ; let o = x||return ; let p = x&&return 1 ; let q = x.unwrap_or_else(||return) ; let r = [return;0] ; let s = (return,return) ; /* una021 jumps inside operators */
let t = || yield ; let u = || yield 1 ; let v = || yield yield 1 ; let w = || (yield)+1 ; let y = || {yield;} ; let z = || {let x = yield 1 ; yield x ; } ; // una022 yield forms
let aa = return some_function_with_a_long_name(first_argument_with_a_long_name, second_argument_with_a_long_name, third_argument_long, fourth);
let ab = match x {_=>return} ; let ac = if x {return} else {break} ; let ad = f(return) ; let ae = return.x ; let af = (return)?.x ; let ag = return? ; let ah = return as u8 ; let ai = &return ; let aj = !return ; let ak = -return ; let al = *return ;
}

// una023 prefix operators, try and await spread over odd line breaks
fn odd_breaks(){
let a = -
x ; let b = !
!
x ; let c = &
mut
x ; /* una024 operator and operand on different lines */
let d = x
? ; let e = x
.
await
? ; let f = x
?
.
await ; // una025 postfix operators on their own lines
let g = f(-x,!y,*z,&w,&mut v,-x?,!y.await,*z?.await?,&w.await?,&mut v?[0],) ; let h = [-x?,!y?,*z?] ; let i = (-x.await,!y.await,) ; let j = S{a:-x?,b:!y.await,..*z?} ;
}
