// rustfmt-edition: 2021
// Extra corpus (written for the checks, not taken from rustfmt): the format_strings option on long cooked strings with spaces, escapes, unicode and existing continuations, and on the kinds it must leave alone.
// rustfmt-format_strings: true

// fms001 a long string in a constant
const   LOREM:&str="Lorem ipsum dolor sit amet, consectetur adipiscing elit, sed do eiusmod tempor incididunt ut labore et dolore magna aliqua. Ut enim ad minim veniam" ;
const NO_SPACES : & str = "LoremipsumdolorsitametconsecteturadipiscingelitseddoeiusmodtemporincididuntutlaboreetdoloremagnaaliquaUtenimadminimveniamquisnostrud" ; /* fms002 nowhere to break */
const PUNCTUATION:&str="comma,separated,values,without,any,spaces,but,with,plenty,of,punctuation;and;semicolons;too;so;there;are;places:to:break:it";
static SHORT:&str="short";static EMPTY:&str="";

fn escapes_near_the_break(){
    // fms003 the escapes are placed about where the line has to be cut
    let a="aaaaaaaaaa bbbbbbbbbb cccccccccc dddddddddd eeeeeeeeee ffffffffff gggggggggg hhhhhhhh\n iiiiiiiiii jjjjjjjjjj kkkkkkkkkk";
    let b = "aaaaaaaaaa bbbbbbbbbb cccccccccc dddddddddd eeeeeeeeee ffffffffff gggggggggg hhhhhhhh \\ iiiiiiiiii jjjjjjjjjj kkkkkkkkkk";
    let c="aaaaaaaaaa bbbbbbbbbb cccccccccc dddddddddd eeeeeeeeee ffffffffff gggggggggg hhhhhhhhh \"iiiiiiiiii\" jjjjjjjjjj kkkkkkkkkk";
    /* fms004 a unicode escape and a hex escape at the cut */
    let d = "aaaaaaaaaa bbbbbbbbbb cccccccccc dddddddddd eeeeeeeeee ffffffffff gggggggggg hhhhhhhh\u{1F600}\u{1F600}\u{1F600} iiiiiiiiii jjjjjjjjjj";
    let e="aaaaaaaaaa bbbbbbbbbb cccccccccc dddddddddd eeeeeeeeee ffffffffff gggggggggg hhhhhhhhhh\x41\x42\x43\x44 iiiiiiiiii jjjjjjjjjj";
    let f = "many\nnewline\nescapes\nin\na\nrow\nso\nthat\nevery\nword\ncould\nend\na\nline\nand\nthe\nstring\nis\nstill\nlonger\nthan\nthe\nwidth\nallows";
    let g="tabs\tand\tcarriage\rreturns\tand\0nuls\tinstead\tof\tspaces\tall\tthe\tway\tthrough\tthis\tvery\tlong\tstring\tliteral\there";
    let h = "ends with a backslash and is long enough to be broken somewhere before the end of it, or so one hopes \\";
}

fn spaces_in_odd_amounts( ){
    // fms005 runs of spaces and spaces at either end
    let a="   three leading spaces and a long tail which goes on and on and on and on and on and on and on and on and on";
    let b = "a long head which goes on and on and on and on and on and on and on and on and on and three trailing spaces   ";
    let c="words    separated    by    four    spaces    each    so    that    a    cut    lands    between    spaces    perhaps";
    let d = "aaaaaaaaaa bbbbbbbbbb cccccccccc dddddddddd eeeeeeeeee ffffffffff gggggggggg hhhh                              iiiiiiiiii";
    let e="a single very long word after a short one: Pneumonoultramicroscopicsilicovolcanoconiosisandthensomemoretomakeitoverflowthelinewidth end";
}

fn unicode_content(){
    let a = "Grüße aus Österreich, wo die Wörter länger und länger werden, bis schließlich die Zeile überläuft, und dann noch weiter";
    // fms006 wide characters count double
    let b="全角文字列がここにあります 全角文字列がここにあります 全角文字列がここにあります 全角文字列がここにあります 全角文字列";
    let c = "emoji 🎉🎉🎉 and combining e\u{301} and a family 👨‍👩‍👧‍👦 and flags 🇩🇪🇫🇷🇮🇹 in a line which is long enough to need cutting somewhere here" ; /* fms007 grapheme clusters must stay whole */
    let d="Привет, мир! Это довольно длинная строка на русском языке, которую нужно где-то разорвать, чтобы она поместилась";
}

fn existing_continuations_and_lines(){
    // fms008 already continued by hand
    let a="first part of a string which was already broken by hand \
           second part which is itself much too long to fit into the width of one hundred columns, so what now \
   third";
    let b = "a multi-line string
whose second line is very long, longer than the maximum width allows, so that the question of cutting it arises here
and a third line";
    /* fms009 a short one with a continuation */
    let c="short \
      one";
    let d = "line one\n\
             line two\n\
             line three\n";
}

fn in_calls_chains_and_macros(){
    call_with_a_string("a string argument which is long enough that it must be broken when format_strings is switched on, here");
    let r=some_object.method_one().method_two("an argument to the second method which is long enough that it must be broken, one would think").method_three();
    // fms010 format-like macros
    println!("a format string with {} placeholders which is long enough that it must be broken when the option is on: {:?}",2,value);
    let s=format!("{}{}{}",   "three short" , "pieces", "only" ) ;
    panic!("something went wrong while doing the thing with the other thing and this message is going to be very long: {err}");
    let e = Err(Error::new(ErrorKind::Other,"an error message inside nested calls which is long enough that it must be broken")) ; /* fms011 nested */
    let sum="the first of two long strings which are added together with a plus sign in between them".to_string()+"the second of two long strings which are added together with a plus sign in between";
}

fn kinds_left_alone(){
    // fms012 raw, byte and C strings are not cooked strings
    let a=r"a raw string which is long enough that it would have to be broken if it were not raw, but it is raw, and so it stays";
    let b = b"a byte string which is long enough that it would have to be broken if it were a plain string, which it is not";
    let c=c"a C string which is long enough that it would have to be broken if it were a plain string, which it is not at all";
    let d = br#"a raw byte string which is long enough that it would have to be broken if it were not "raw", but it is raw"# ;
}

// fms013 in items, fields, arms and attributes
#[doc="an attribute value which is long enough that it would have to be broken if attributes were formatted like expressions"]
struct Messages{ first:&'static str, // fms014 after a field
    /* fms015 before a field */ second : &'static str }
const MESSAGES:Messages=Messages{first:"the first message is long enough that it must be broken when format_strings is switched on, here",second:"short"};
fn arms(x:u8)->&'static str{ match x{ 0=>"zero", // fms016 after an arm
    1=>"the arm for one returns a string which is long enough that it must be broken when format_strings is on",
    /* fms017 before the last arm */ _=>"many" } }
