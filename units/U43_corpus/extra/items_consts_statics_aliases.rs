// rustfmt-edition: 2021
// Extra corpus (written for the checks, not taken from rustfmt): const and static items, unnamed consts, type aliases with generics bounds and where clauses.

const   A : u8 = 1 ;
const B:u8=2;
pub const C : & str = "see" ;
pub(crate)const D:&'static str="dee";
pub(in crate::path) const E:(u8,u16)=(1,2,);
// cst001 the unnamed constant and its uses
const _:()=();
const _ : ( ) = assert!(size_of::<u8>()==1);
const _:()={let _=1;/* cst002 comment inside the block of an unnamed constant */};
const _:fn()=||{};
/* cst003 statics in every flavour */
static S1:u8=1;
static   mut   S2 : u8 = 2 ;
pub static S3:AtomicUsize=AtomicUsize::new(0);
pub(crate) static mut S4:[u8;4]=[0;4];
static S5:&[&str]=&["a","b","c",];
static S6:&'static [(&'static str,u32)]=&[("one",1),("two",2),("three",3),("four",4),("five",5),("six",6),("seven",7)];
#[no_mangle]#[used]#[link_section=".cst"]pub static S7:u32=0xDEAD_BEEF;
#[thread_local]static mut S8:Cell<u8>=Cell::new(0);
static r#static:r#type=r#const;
// cst004 initialisers which do not fit on the line
const A_CONSTANT_WITH_A_VERY_LONG_NAME_INDEED:AVeryLongTypeNameForTheConstant<WithGenericParameters>=AVeryLongTypeNameForTheConstant::new(1,2);
const LONG_STRING:&str="a string literal which is so long that it will not fit within the maximum width of one hundred columns at all";
const LONG_SUM:usize=FIRST_CONSTANT_WITH_A_LONG_NAME+SECOND_CONSTANT_WITH_A_LONG_NAME+THIRD_CONSTANT_WITH_A_LONG_NAME+FOURTH;
static LONG_ARRAY:[u32;24]=[1,2,3,4,5,6,7,8,9,10,11,12,13,14,15,16,17,18,19,20,21,22,23,0xFFFF_FFFF,];
const STRUCT_LIT:Point=Point{x:1,y:2,};
const LONG_STRUCT_LIT:Configuration=Configuration{first_field_with_a_long_name:1,second_field_with_a_long_name:"two",third:Some(3),..Configuration::DEFAULT};
const CLOSURE:fn(u8)->u8=|x|x+1;
const BLOCK:u8={const INNER:u8=1;INNER+1};
const NESTED:[[u8;2];2]=[[1,2,],[3,4,],];
const TUPLE1:(u8,)=(1,);
/* cst005 literals of every kind as initialisers */
const L1:u128=0xFFFF_FFFF_FFFF_FFFF_FFFF_FFFF_FFFF_FFFF;
const L2:f64=1.0e-10;const L3:f32=1_000.000_1f32;const L4:f64=1.;const L5:f64=2E+3;
const L6:char='\u{1F600}';const L7:u8=b'\\';const L8:&[u8]=b"bytes\x00\n";const L9:&[u8;3]=br##"r"#"##;
const L10:&str=r##"raw "# string"##;const L11:&str="ünïcödé 名前 \u{e9}";const L12:&CStr=c"cstr";
const L13:i32=-0x7FFF_FFFF-1;const L14:bool=!true;const L15:usize=usize::MAX>>1;const L16:&str="";
// cst006 many items on one line separated only by semicolons sit above

static WITH_COMMENT: u8 = 1; // cst007 trailing comment after a static
const WITH_BLOCK: u8 = 2; /* cst008 trailing block comment after a const */
/// cst009 doc comment on a const
#[allow(dead_code)] #[deprecated] pub const DOCUMENTED:u8=3;
/** cst010 block doc comment on a static */ pub static DOCUMENTED2:u8=4;
const NO_TYPE_INFERRED:_=5;
const UNICODE_ÑAME:usize=6;static 名前:&str="名前";
// cst011 type aliases
type   T1 = u8 ;
type T2=(u8,u16,);
pub type T3<T>=Vec<T>;
pub(crate) type T4<'a,T>=&'a mut [T];
type T5<T:Clone+Send,const N:usize=4>=[T;N];
type T6<T>where T:Clone=Vec<T>;
type T7<T>=Vec<T>where T:Clone;
type T8=fn(u8,u16)->u32;
type T9=unsafe extern "C" fn(*const c_void,...)->c_int;
type T10<'a>=Box<dyn for<'b> Fn(&'b str)->&'a str+Send+Sync+'a>;
type T11=impl Iterator<Item=impl Clone+'static>+Send;
type T12=<Vec<u8>as IntoIterator>::IntoIter;
type T13= ! ;type T14=();type T15=(u8);type T16=((u8,),);type T17=*const *mut u8;type T18=[[u8;2];{1+1}];
/* cst012 aliases which do not fit on the line */
type ATypeAliasWithAVeryLongNameIndeedSoLong=SomeGenericTypeWithALongName<FirstParameterType,SecondParameterType,Third>;
pub type AnotherLongAlias<FirstTypeParameter,SecondTypeParameter>=Result<HashMap<FirstTypeParameter,Vec<SecondTypeParameter>>,Box<dyn Error+Send+Sync>>;
type LongFnPointer=for<'a,'b> unsafe extern "C" fn(first_argument:&'a FirstArgumentType,second_argument:&'b SecondArgumentType)->&'a ReturnType;
type r#type=r#struct;type Größe=usize;
#[cfg(unix)]#[allow(non_camel_case_types)]pub type c_long_alias=i64; // cst013 trailing comment after an alias
fn locals(){const X:u8=1;static Y:u8=2;type Z=u8;static mut W:Z=X+Y; /* cst014 consts statics and aliases inside a fn body */ let _:Z=X;}
const SHORT:u8=0;
type Sh=u8;
