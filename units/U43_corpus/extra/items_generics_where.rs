// rustfmt-edition: 2021
// Extra corpus (written for the checks, not taken from rustfmt): generic parameter lists and where clauses on fns, structs, enums, impls, traits and type aliases.

fn g1<T>(){}
fn g2< T , U , >( ) { }
fn g3<'a>(x:&'a u8)->&'a u8{x}
fn g4<'a,'b:'a,'c:'a+'b,T:'a+?Sized,U:Clone+Send+Sync+'static>(){}
// gwh001 const generics and defaults come next
fn g5<const N:usize>(a:[u8;N]){}
fn g6<T,const N:usize,const M : usize>()->[[T;N];M]{todo!()}
struct D1<T=i32,U=Vec<T>,const N:usize=3,const B:bool=true,const C:char='x',const K:i8=-1,const E:usize={1+2}>(T,U);
/* gwh002 higher ranked bounds and parenthesised bounds */
fn g7<F:for<'a> Fn(&'a str)->&'a str,G:for<'a,'b> FnMut(&'a u8,&'b u8),>(f:F,g:G){}
fn g8<T:(Clone)+(?Sized)+(for<'x> Tr<'x>)>(){}
fn g9<T:?Sized+~const Tr,U:?Sized>(){}
fn g10<#[cfg(all())] T, #[allow(unused)] 'a, #[attr] const N: usize>(){}
fn g11<T:Iterator<Item=U>,U:IntoIterator<Item=V,IntoIter=W>,V,W:Iterator<Item=V>+DoubleEndedIterator+ExactSizeIterator>(t:T){}
// gwh003 a long generic list which must be broken over lines
fn a_generic_function_with_many_parameters<FirstTypeParameter, SecondTypeParameter, ThirdTypeParameter, FourthTypeParameter>(a: FirstTypeParameter) {}
fn generic_with_comments<
    'a,
    T: Clone,
    const N: usize,
>(x: &'a [T; N], // gwh004 comment after a parameter which follows broken generics
  /* gwh005 block comment before a parameter */ y: T,
  // gwh006 own line comment before the last parameter
  z: [u8; N]) {}

fn w1<T>() where T:Clone{}
fn w2<T,U>()where T:Clone,U:Clone,{}
fn w3<T>(t:T)->T where T:Clone+Send+Sync+'static{t}
fn w4<'a,'b,T>()where 'a:'b,'b:'a,T:'a{}
fn w5<T>()where T:Fn()->(),{}
fn w6<T>()where T:,{}
// gwh007 where clauses with complex left hand sides
fn w7<T,U>()where Vec<T>:Clone,[T;3]:Default,(T,U):PartialEq,&'static T:Send,*const U:Sized,<T as Iterator>::Item:Copy,T::Item:Debug,for<'a> &'a T:IntoIterator<Item=&'a U>,for<'a> <&'a T as IntoIterator>::IntoIter:Clone,fn(T)->U:Copy,dyn Tr<T>+Send:Other,{}
fn w8<T>(argument_one:T,argument_two:T)->Result<SomeLongTypeName<T>,AnotherLongErrorTypeName>where T:SomeLongTraitNameNumberOne+SomeLongTraitNameNumberTwo+SomeLongTraitNameNumberThree+SomeLongTraitNameNumberFour,{todo!()}
fn w9<T>() -> T
where
    T: Clone,
    T: Send,
    T: Sync,
{
    // gwh008 comment at the top of a body which follows a where clause
    fn inner<U>()where U:Clone{} /* gwh009 block comment after a nested fn with a where clause */
    todo!() // gwh010 comment after the last expression
}

/* gwh011 structs and enums with generics and where clauses */
struct S1<T>where T:Clone;
struct S2<T>(T)where T:Clone;
struct S3<T>(T,)where T:Clone,;
struct S4<T>where T:Clone{t:T}
struct S5<'a,T:'a+?Sized,const N:usize>where T:Debug,[u8;N]:Sized{r:&'a T,a:[u8;N],}
struct S6<T,>{t:T}
enum E1<T>where T:Clone{A(T),B{t:T},C}
enum E2<'a,T:'a>{R(&'a T)}
union U1<T>where T:Copy{a:T,b:u8}
// gwh012 impl headers
impl<T>S4<T>where T:Clone{}
impl<T:Clone>S4<T>{}
impl<'a,T,const N:usize>Tr<'a,T,N>for S5<'a,T,N>where T:Debug+?Sized+'a,[u8;N]:Sized,{}
impl<T>Tr for T where T:?Sized{}
impl<AVeryLongTypeParameterName, AnotherVeryLongTypeParameterName> SomeTraitWithALongName<AVeryLongTypeParameterName> for SomeStructWithALongName<AnotherVeryLongTypeParameterName> where AVeryLongTypeParameterName: Clone {}
impl<T> Tr for S4<T> where T: Clone { fn f(){} }
impl<T> Tr for S4<T> where T: Clone
{
    fn f(){} // gwh013 comment after a method of an impl with a where clause
}
/* gwh014 traits and aliases */
trait T1<T>where T:Clone{}
trait T2<'a,T:'a,const N:usize=0>:T1<T>+'a where Self:Sized,T:Clone{}
trait T3<T>:Super1<T>+Super2<Assoc=T>+for<'a> Super3<'a>+?Sized where T:AVeryLongBoundNameForTheWhereClause+AnotherVeryLongBoundName{}
type A1<T>=Vec<T>;
type A2<T>where T:Clone=Vec<T>;
type A3<'a,T:'a,const N:usize>=&'a [T;N];
type A4<T:Clone+Send>=Box<dyn Fn(T)->T+Send+'static>;
// gwh015 generic arguments in paths, turbofish and nested closers
fn uses(){let _=Vec::<Vec<Vec<u8>>>::new();let _=<Vec<u8>as IntoIterator>::into_iter(v);let _:HashMap<K,V,>=x.collect::<HashMap<_,_,>>();let _=f::<{N+1},-1,'c',true,"s">();let _:A<'static,'_,T,Item=U,N=3>=y;}
fn raw_generic<r#type:r#trait,Ünï:Tr>(){}
fn short<T>(t:T)where T:A{}
