// rustfmt-edition: 2021
// Extra corpus (written for the checks, not taken from rustfmt): comments placed inside expression statements: between the operands of binary chains, the links of method chains, around closures, casts, ranges, unary operators, index brackets and control flow heads.

// cin001 comments between the operands of a binary chain
fn in_binary_chains(){
let a = first_operand // cin002 after the first operand
+ second_operand // cin003 after the second operand
+ third_operand ;
let b = first_operand /* cin004 block after the first operand */ + second_operand /* cin005 block after the second operand */ * third_operand ;
let c = first_operand + /* cin006 block after the operator */ second_operand - // cin007 line after the operator
third_operand ;
let d = first_condition && // cin008 after the logical operator
second_condition || /* cin009 before the third condition */ third_condition ;
let e = ( /* cin010 after the opening parenthesis */ x + y ) * ( z - w /* cin011 before the closing parenthesis */ ) ;
x += /* cin012 after the compound assignment operator */ 1 ; x = // cin013 after the assignment operator
2 ; x /* cin014 before the assignment operator */ = 3 ;
}

// cin015 comments between the links of a method chain
fn in_method_chains(){
let a = receiver // cin016 after the receiver
.first_method() // cin017 after the first call
.second_method() /* cin018 block after the second call */
.third_method() ;
let b = receiver /* cin019 inline after the receiver */ .first_method() /* cin020 inline between calls */ .second_method() ;
let c = receiver.field // cin021 after a field
.another_field /* cin022 after another field */ .method()? // cin023 after a question mark
.await /* cin024 after await */ .last() ;
let d = receiver . /* cin025 after the dot */ method() ; let e = receiver.method /* cin026 before the argument list */ (argument) ;
let f = receiver.method::< /* cin027 inside the turbofish */ u8 >() ; let g = x [ /* cin028 inside index brackets */ 0 ] ; let h = x /* cin029 before index brackets */ [0] ;
let i = x? /* cin030 between question marks */ ? ; let j = x . /* cin031 before await */ await ; let k = x.0 /* cin032 between tuple fields */ .1 ;
}

// cin033 comments around closures
fn around_closures(){
let a = | /* cin034 before the first parameter */ x , /* cin035 before the second parameter */ y | x + y ;
let b = |x| /* cin036 between the parameters and the body */ x + 1 ; let c = |x| // cin037 line comment before the body
x + 1 ;
let d = move /* cin038 after move */ |x| x ; let e = |x| -> /* cin039 before the return type */ u8 { x } ; let f = |x| -> u8 /* cin040 after the return type */ { x } ;
let g = |x| { // cin041 at the start of the closure block
x } ; let h = |x| { x // cin042 at the end of the closure block
} ;
f(|x| /* cin043 in a closure argument */ x , /* cin044 before the second closure */ |y| y) ; let i = |x : /* cin045 before a parameter type */ u8| x ;
}

// cin046 comments around unary operators, casts and ranges
fn around_small_operators(){
let a = - /* cin047 after minus */ x ; let b = ! /* cin048 after not */ x ; let c = * /* cin049 after star */ x ; let d = & /* cin050 after ampersand */ x ; let e = &mut /* cin051 after mut */ x ;
let f = x /* cin052 before as */ as u8 ; let g = x as /* cin053 after as */ u8 ; let h = x as u8 /* cin054 after the cast */ as u16 ;
let i = x /* cin055 before the range operator */ .. y ; let j = x .. /* cin056 after the range operator */ y ; let k = .. /* cin057 in a prefix range */ y ; let l = x ..= /* cin058 in an inclusive range */ y ;
let m = x // cin059 line comment before as
as u8 ; let n = x .. // cin060 line comment inside a range
y ;
let o = return /* cin061 after return */ x ; let p = break /* cin062 after break */ 'label /* cin063 after the label */ x ; let q = & /* cin064 after a raw borrow ampersand */ raw const x ;
}

// cin065 comments in control flow heads and between branches
fn in_control_flow(){
let a = if /* cin066 after if */ c { 1 } else /* cin067 after else */ { 2 } ; let b = if c /* cin068 after the condition */ { 1 } else { 2 } ;
let c = if let /* cin069 after let */ Some(x) = /* cin070 after the equals sign */ y { x } else { 0 } ; let d = if let Some(x) /* cin071 after the pattern */ = y { x } else { 0 } ;
let e = match /* cin072 after match */ x { _ => 1 } ; let f = match x /* cin073 after the scrutinee */ { _ => 1 } ;
let g = match x { A /* cin074 after the pattern */ => 1 , B => /* cin075 after the arrow */ 2 , C | /* cin076 inside an or pattern */ D => 3 , E if /* cin077 inside a guard */ c => 4 , _ => 5 } ;
while /* cin078 after while */ c { } for /* cin079 after for */ x in /* cin080 after in */ y { } loop /* cin081 after loop */ { } 'label : /* cin082 after a label */ loop { }
let h = unsafe /* cin083 after unsafe */ { 1 } ; let i = async /* cin084 after async */ move { 1 } ; let j = const /* cin085 after const */ { 1 } ; let k = 'label : /* cin086 after a block label */ { 1 } ;
let l = if c { 1 } else if /* cin087 in an else if */ d { 2 } else { 3 } ; while let /* cin088 in while let */ Some(x) = y { }
}

// cin089 comments in struct literals, tuples, arrays and index expressions, at odd places
fn in_literals(){
let a = S /* cin090 between the path and the brace */ { x : 1 } ; let b = S { x /* cin091 before the colon */ : 1 } ; let c = S { x : /* cin092 after the colon */ 1 } ;
let d = S { x : 1 , .. /* cin093 after the dots */ base } ; let e = S { x : 1 , /* cin094 before the dots */ .. base } ; let f = S { /* cin095 in an empty struct literal */ } ;
let g = ( /* cin096 in an empty tuple */ ) ; let h = [ /* cin097 in an empty array */ ] ; let i = [ 0 /* cin098 before the semicolon of a repeat */ ; 4 ] ; let j = [ 0 ; /* cin099 after the semicolon of a repeat */ 4 ] ;
let k = ( 1 , /* cin100 in a single element tuple */ ) ; let l = ( 1 /* cin101 before the comma of a single element tuple */ , ) ; let m = f ( /* cin102 in an empty argument list */ ) ;
let n = x.f ( /* cin103 in an empty method argument list */ ) ; let o = { /* cin104 in an empty block */ } ; let p = || { /* cin105 in an empty closure block */ } ; let q = | /* cin106 in an empty parameter list */ | 1 ;
}
