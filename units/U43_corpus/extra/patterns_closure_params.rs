// rustfmt-edition: 2021
// Extra corpus (written for the checks, not taken from rustfmt): closures whose parameters are patterns (tuples, structs, slices, references, or-patterns, typed and untyped), with move/async/static, return types, and bodies of every shape.

// clp001 short ones
fn short(){let f=|(a,b)|a+b;let g=|_|();}

fn parameter_patterns() {
    let a=|(x,y)|x+y;
    let b = | ( x , y ) : ( u8 , u8 ) | x * y; // clp002 spaces inside the bars
    let c=|&x|x;
    let d=|&(a,b)|a+b;
    let e=|&mut (ref mut a, _)| *a+=1;
    let f=|Point{x,y}|x+y; /* clp003 struct pattern without a type */
    let g=|Point{x:px,..}:Point|px;
    let h=|Wrapper(inner)|inner;
    let i=|[a,b,c]:[u8;3]|a+b+c;
    let j=|[first,..,last]:&[u8;8]|first+last;
    let k=|(Ok(v)|Err(v)):Result<u8,u8>|v;
    // clp004 mut, ref and at bindings as parameters
    let l=|mut acc, ref item, ref mut scratch| { acc+=1; acc };
    let m=|n@1..=9|n;
    let n=|whole@(left,right)|(whole,left,right);
    let o=|_,_:u8,(_,_),..| 0;
    let p=|((a,b),(c,(d,e))):((u8,u8),(u8,(u8,u8)))|a+b+c+d+e;
    let q=|r#type, r#ref:u8, größe| r#type;
    let r=|#[cfg(unix)] fd: i32, #[cfg(windows)] handle: usize| {}; /* clp005 attributes on closure parameters */
    let s=|()|();
    let t=||();
    let u=| |{};
    let v=|x,|x;
    let w=|0..=9|{};
}

// clp006 long parameter lists that do not fit on one line
fn long_lists() {
    let handler = |Request { method: request_method_name, path: request_path_segments, headers: request_header_map, .. }: Request, (connection_identifier, peer_address): (u64, SocketAddr), &mut ServerState { ref mut counter, .. }: &mut ServerState| -> Result<Response, HandlerError> { respond(request_method_name, request_path_segments) };
    let folder = |(accumulated_total, accumulated_count): (f64, usize), &(ref sample_name, sample_value): &(String, f64)| (accumulated_total + sample_value, accumulated_count + 1);
    /* clp007 a long closure passed as the last argument */
    items.iter().enumerate().for_each(|(index_of_the_item, &Item { identifier: item_identifier, weight: item_weight, .. })| { register(index_of_the_item, item_identifier, item_weight); });
    let typed = |first: std::collections::HashMap<String, Vec<u8>>, second: Box<dyn Fn(u8) -> u8 + Send + Sync + 'static>, third: &'static mut [Option<&str>]| -> Box<dyn Iterator<Item = (String, u8)>> { todo!() };
}

fn modifiers_and_return_types() {
    let a=move|(x,y)|x+y;
    let b = move | | captured;
    let c=async|x|x; // clp008 async closure
    let d=async move|(a,b):(u8,u8)|{a+b};
    let e=static||{yield 1;};
    let f = static move |_: ()| { yield; };
    let g=|x|->u8{x};
    let h=|(a,b):(u8,u8)|->(u8,u8){(b,a)}; /* clp009 return type forces a block */
    let i=|x:&str|->Result<Vec<(usize,String)>,Box<dyn std::error::Error>>{parse(x)};
    let j=for<'a>|x:&'a str|->&'a str{x};
    let k = for<'a, 'b: 'a> move |(x, y): (&'a u8, &'b u8)| -> &'a u8 { x };
    let l=|x|->!{panic!()};
    let m = const || 1;
}

// clp010 bodies of different shapes
fn bodies(v: Vec<(u8, Option<char>)>) {
    let a=|(n,_)|n;
    let b=|(n,c)|{n}; // clp011 block around a single expression is removed
    let c=|(n,c)|{let t=n; t};
    let d=|(n,c)|match c{Some(ch)=>ch as u8+n,None=>n};
    let e=|(n,c)|if let Some(ch)=c{ch as u8}else{n};
    let f=|(n,_)|loop{break n};
    let g=|(n,_)|unsafe{danger(n)};
    let h=|(n,_)|async move{n};
    let i=|(n,_)|move|(m,_)|n+m; /* clp012 closure returning a closure */
    let j=|(n,_)||(m,_)||(k,_)|n+m+k;
    let k=|(n,_)|(n,n);
    let l=|(n,_)|[n;4];
    let m=|(n,_)|Point{x:n,y:n};
    let n=|(n,_)|return n;
    let o=|(n,_)|n?;
    let p=|(n,_)|&mut n;
    let q=|(n,_)|n as u32 as u64;
    let r=|(n,_)|n..=n+1;
    let s=|(a,b)|a|b; // clp013 a bitwise or right after the closing bar
    let t=|(a,b)|a||b;
    let u = |(first_operand, second_operand)| first_operand.checked_add(second_operand).and_then(|sum| sum.checked_mul(scaling_factor)).unwrap_or_else(|| fallback_value_when_the_arithmetic_overflows);
}

fn as_arguments(pairs: Vec<(String, u32)>, grid: &[[u8; 3]]) {
    pairs.iter().map(|(k,v)|(v,k)).filter(|&(v,_)|*v>0).for_each(|(v,k)|println!("{k}{v}"));
    pairs.into_iter().fold((0,String::new()),|(n,mut s),(k,v)|{s.push_str(&k);(n+v,s)}); /* clp014 fold with two pattern parameters */
    grid.iter().map(|&[a,b,c]|a+b+c).max_by_key(|&total|total);
    sort_by(|&(ref a,_),&(ref b,_)|a.cmp(b));
    // clp015 closures in the middle of an argument list
    call(1, |(a,b)|a+b, 2, |Point{x,..}|x, 3);
    call(|(a, b)| { let s = a + b; s * 2 }, |_| (), move |Wrapper(w)| w);
    spawn(move||{let (tx,rx)=channel();for (i,(a,b)) in pairs.iter().enumerate(){tx.send((i,a,b))}});
    let r = (|(a,b)|a+b)((1,2)); /* clp016 immediately called closure */
    let s = (|Point{x,y}:Point|->u8{x+y})(p);
}
