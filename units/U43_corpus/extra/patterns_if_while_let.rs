// rustfmt-edition: 2021
// Extra corpus (written for the checks, not taken from rustfmt): if let, else-if-let ladders, let chains joined by && with plain conditions, and while let loops with labels.

// iwl001 short ones
fn short(o:Option<u8>)->u8{if let Some(x)=o{x}else{0}}

fn plain_if_let(opt: Option<u32>, res: Result<Vec<u8>, Error>, pair: (i32, i32)) -> u32 {
    if let Some(x)=opt{return x}
    if let Some(x) = opt { x } else { 0 }; // iwl002 fits on one line as an expression statement
    let v = if let Some(x)=opt{x}else{0};
    let w=if let Ok(bytes)=res{bytes.len() as u32}else if let Some(x)=opt{x}else if pair.0>pair.1{1}else{2};
    /* iwl003 a ladder of else if let */
    if let (0, y) = pair { zero_x(y) } else if let (x, 0) = pair { zero_y(x) } else if let (x, y) | (y, x) = pair && x == y { diagonal(x) }
    else if let (i32::MIN..=-1, _) = pair {
        negative()
    }
    // iwl004 a comment before the final else
    else { other() }
    if let Some(very_long_binding_name_number_one) = compute_something_with_a_long_function_name(opt, &res, pair.0, pair.1) { consume(very_long_binding_name_number_one) }
    if let Message::Request { id: request_identifier, method: request_method, params: request_parameters, .. } = incoming_message { dispatch(request_identifier,request_method,request_parameters) }
    if let Some(x) = (Wrapper { inner: opt }).inner {} /* iwl005 struct literal in parentheses in the scrutinee */
    if let Some(x) = match opt { Some(1) => None, other => other } { use_it(x) }
    if let Some(ref mut x) = opt.as_mut() { **x += 1 }
    if let | Some(1) | None = opt { }
    0
}

// iwl006 chains of let and boolean conditions
fn chains(a: Option<u8>, b: Option<u8>, c: Result<u8, ()>, flag: bool) {
    if let Some(x)=a&&let Some(y)=b{both(x,y)}
    if flag && let Some(x) = a { one(x) } // iwl007 condition first
    if let Some(x) = a && flag { one(x) }
    if let Some(x) = a && x > 3 && let Some(y) = b && y < x && let Ok(z) = c && z == x + y && flag { three(x, y, z) }
    /* iwl008 a long chain with long names */
    if let Some(first_value_in_the_chain) = first_source_of_optional_values.next() && let Some(second_value_in_the_chain) = second_source_of_optional_values.next() && first_value_in_the_chain != second_value_in_the_chain && let Ordering::Less | Ordering::Equal = first_value_in_the_chain.cmp(&second_value_in_the_chain) { ordered(first_value_in_the_chain, second_value_in_the_chain) } else { unordered() }
    if (flag || other_flag) && let Some(x) = a {} // iwl009 parenthesised disjunction before a let
    if let Some(x) = a && (x == 1 || x == 2) {}
    if let Some(x) = a && let 1..=5 = x && let [p, q] = pair_of(x) && let Point { x: px, .. } = point_of(p, q) {}
    if let Some(x) = a && let Some(y) = lookup_in_a_table_with_a_long_name(x, flag) {} else if let Some(y) = b && let Ok(z) = c {} else {}
    let r = if let Some(x) = a && let Some(y) = b { x + y } else { 0 }; /* iwl010 chain in an expression position */
    if let Some(x) = a && { let t = x * 2; t > 4 } {}
    if let Some(x) = a && matches!(b, Some(y) if y > x) {}
    if let Some(x) = a && let Some(y) = b.map(|v| v + x).filter(|v| *v > 10).or_else(|| default_value_provider.provide()) && !flag {}
}

// iwl011 while let loops
fn while_lets(mut stack: Vec<Node>, mut it: impl Iterator<Item = (u8, char)>, rx: Receiver<Msg>) {
    while let Some(top)=stack.pop(){visit(top)}
    while let Some(_) = stack.pop() {}
    while let Some(Node{children,value:Some(v),..})=stack.pop(){ for c in children { stack.push(c) } total+=v; } // iwl012 struct pattern in while let
    while let Some((index, character @ ('a'..='z' | 'A'..='Z'))) = it.next() { record(index, character) }
    'receive: while let Ok(message) = rx.recv() {
        match message { Msg::Stop => break 'receive, Msg::Skip => continue 'receive, Msg::Data(d) => handle(d) } /* iwl013 labels used in arms */
    }
    'a:while let Some(x)=outer.next(){'b:while let Some(y)=inner.next(){if x==y{break 'a}else{continue 'b}}}
    /* iwl014 a long while let header */
    while let Some(next_token_from_the_lexer) = lexer_with_a_very_long_name.next_significant_token_skipping_whitespace_and_comments() { consume(next_token_from_the_lexer) }
    while let Some(x) = stack.pop() && let Some(y) = x.child && y.is_valid() { stack.push(y) } // iwl015 chain in a while
    while let [first, rest @ ..] = slice { slice = rest; sum += first; }
    while let Some(ref mut node) = cursor { cursor = &mut node.next; }
    while let Poll::Ready(Some(Ok(item)))|Poll::Ready(Some(Err(item))) = stream.poll_next() { items.push(item) }
    while let Some(x) = { let t = stack.pop(); t } {}
    while let (Some(a), Some(b)) = (left.next(), right.next()) { if a != b { return } }
}

fn plain_conditions_for_contrast(x: i32, y: i32) -> i32 {
    if x>0{1}else if x<0{-1}else{0};
    // iwl016 long condition without any let
    if x > 0 && y > 0 && x.checked_add(y).is_some() && x.checked_mul(y).is_some() && some_predicate_with_a_long_name(x, y) || y == i32::MIN { 1 } else { 2 };
    while x < y { x += 1; }
    while !finished() && attempts_made_so_far < maximum_number_of_attempts_allowed && !cancellation_token.is_cancelled() { attempts_made_so_far += 1 } /* iwl017 long while */
    let z = if x == y { "same" } else { "different" };
    if let true = x > y { 1 } else { 0 }
}
