// rustfmt-edition: 2021
// Extra corpus (written for the checks, not taken from rustfmt): ordinary string literals with every escape form, line continuations and multi-line bodies.

// ste001 the simple escapes one after the other
const   SIMPLE_ESCAPES:&str="\n\r\t\\\0\'\"" ;
const HEX_ESCAPES : & str = "\x00\x7f\x41\x61\x20" ; /* ste002 seven bit hex escapes */
const UNICODE_ESCAPES:&'static str="\u{0}\u{41}\u{00e9}\u{1F600}\u{10FFFF}\u{1_F_6_0_0}\u{00_00_41}";
static EMPTY:&str=""   ;
static ONE_SPACE : &str = " ";
// ste003 quotes within quotes and slashes that look like comments
static LOOKS_LIKE_COMMENT:&str="// not a comment ste_no /* nor this */ \" // still inside";
static ENDS_WITH_BACKSLASH:&str="ends with a backslash \\";
static BACKSLASH_THEN_QUOTE:&str="\\\"\\\\\"";

fn line_continuations( ) {
    // ste004 a backslash at the end of the line eats the following white space
    let a="first part \
           second part \
   third part with less indent \
                          fourth part with a lot of indent";
    let b = "no space before the backslash\
    and none after";   /* ste005 trailing block comment after a continued string */
    let c = "continuation followed by an empty line \

             text after the empty line";
    let d="\
";
    let e = "   leading spaces kept \
        \x20 and an escaped space after the continuation";
    // ste006 the continuation inside an argument list
    takes_two ( "short" , "a continued \
         argument" ) ;
    let f="tab\there\
	tab indented continuation";
}

fn multi_line_bodies() {
    let a = "line one
line two
    line three indented
		line four with tabs
";
    /* ste007 block comment between two statements holding multi-line strings */
    let b="
";
    let c = "trailing spaces are significant here
and here
done";
    let d=("first
second","third
fourth",);  // ste008 a tuple of multi-line strings
    let e = some_function_with_a_long_name("a multi-line string as the first argument
which goes on here", 1 ,2, "and a second
one" );
    let f = [ "array
element" , "another" ,"and
one
more"];
}

fn unicode_bodies( ){
    let greeting="Grüße, Wörld! Привет, мир! 你好，世界！ こんにちは世界 🎉🎉🎉";
    let wide  =  "ＷＩＤＥ　ＴＥＸＴ　全角文字列がここにあります　ＷＩＤＥ　ＴＥＸＴ　全角文字列がここにあります　ＷＩＤＥ　ＴＥＸＴ" ;
    // ste009 combining marks and zero width joiners
    let combining = "e\u{301} é a\u{308}\u{323} 👨‍👩‍👧‍👦 🇩🇪 🏳️‍🌈";
    let rtl = "שלום עולם مرحبا بالعالم" ; /* ste010 right to left text */
    let mixed = "tab\tnewline\nunicode\u{2764}\u{fe0f}hex\x21 quote\" apostrophe' backslash\\ nul\0 end";
    let naïve_identifier = "ünïcödé îdéntifier on the left";
    let r#type = "raw identifier on the left";
}

fn strings_in_odd_positions( x : &str )->&'static str{
    match x { "" => "empty" , // ste011 an empty pattern
        "a\nb"=>"with newline",
        "\u{41}" | "\x42" | "C"   =>   "one of three",
        /* ste012 block comment before the last arm */
        _=>"other" }
}
fn long_arm(x:&str)->&str{ match x{ "\u{41}" | "\x42" | "C"   =>   "one of the first letters written in three different ways which makes this arm long", _=>"" } }

fn very_long_literals() {
    let long_no_spaces = "LoremipsumdolorsitametconsecteturadipiscingelitseddoeiusmodtemporincididuntutlaboreetdoloremagnaaliquaUtenimadminimveniam";
    // ste013 a long literal with spaces which only format_strings would break
    let long_with_spaces = "Lorem ipsum dolor sit amet, consectetur adipiscing elit, sed do eiusmod tempor incididunt ut labore et dolore magna aliqua.";
    let long_with_escapes = "Lorem\tipsum\ndolor \"sit\" amet,\\ consectetur \u{1F600} adipiscing \x41 elit, sed do eiusmod tempor incididunt ut labore";
    let short="x";let shorter="";let   s3  =  "y" ;
    let sum = "aaaaaaaaaaaaaaaaaaaaaaaaaaaaaaaaaaaa".len()+"bbbbbbbbbbbbbbbbbbbbbbbbbbbbbbbbbbbbbbbbbb".len()+"cccccccccccccccccccccccccccccccc".len();
    /* ste014 comparison of literals */
    if "abc"<"abd"&&"x"!="y"||"\n"=="\x0a" { return ; }
    let nested = ( ( "parenthesised" ) , (("twice")) , [("in array")] );
    let suffix_like = "text"  . to_string ( ) + & "more" . to_owned( ) ; // ste015 methods straight on a literal
}

fn takes_str(_:&str){} fn takes_two(_:&str,_:&str){}
// ste016 attribute values are string literals too
#[doc="documentation given as an attribute with \"escapes\" and a \
continuation"]
#[cfg(feature="some-feature")] #[deprecated(since="1.0.0",note="use something \u{65}lse")]
fn attributed( ){}
