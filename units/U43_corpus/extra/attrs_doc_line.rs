// rustfmt-edition: 2021
// Extra corpus (written for the checks, not taken from rustfmt): line doc comments, outer and inner, with code blocks, lists, tables, links and headings, on items, fields, variants and nested items.
//! Inner line doc comment of the file (adl901).
//!
//!   With odd    indentation   and trailing spaces.   
//!No space after the marker.
//!
//! # A heading
//!
//! A very long line of the inner documentation comment which certainly does not fit into one hundred columns and which a wrapping option would have to break somewhere.
//! [a link]: https://example.invalid/a/very/long/link/target/which/cannot/be/broken/anywhere/at/all/because/it/is/a/link/target.html

// adl001 an ordinary comment between the inner docs and the first item
///Outer doc without a space (adl902).
fn a(){}
/// One line.
///
/// ```
/// let x   =   1 ;   // badly spaced code in a code block
/// assert_eq!( x,1 );
/// ```
///
/// ```rust,no_run
/// fn main(){let a_rather_long_variable_name=a_function_with_a_long_name(the_first_argument,the_second_argument,the_third_argument);}
/// ```
///
/// ```text
/// not   code    at all   |  |  |
/// ```
/// ~~~ignore
/// tilde fence
/// ~~~
///
///     an indented code block
///     with two lines
fn b(){}
/* adl002 block comment between documented items */
/// Lists (adl903):
///
/// * first item which is quite long and goes on and on and on and on and on and on and on and on and on and on and on
///   continuation of the first item
/// * second item
///     * nested item
///     - nested item with another marker
/// + plus item
/// 1. numbered item
/// 2. second numbered item which is also quite long and goes on and on and on and on and on and on and on and on and on
/// 10) item with a parenthesis
///
/// > a quotation
///
/// - [ ] task
/// - [x] done task
pub struct C{
    /// Field doc (adl904).
    pub a:u8,
    ///
    b:u8, // adl003 trailing comment after a field with an empty doc comment
    /// Two
    /// lines.
    #[allow(unused)]
    /// And one more after an attribute.
    pub(crate) c:u8,
}
/// A table (adl905):
///
/// | column one | column two | column three with a long title | column four with an even longer title |  col 5 |
/// |------------|:----------:|-------------------------------:|---|---|
/// | a | b | c | d | e |
/// | a rather long cell | b | c | d | another rather long cell to push the row beyond the width |
///
/// Links: [`C`], [`C::a`], [text](https://example.invalid/x), [ref][label], <https://example.invalid/auto>, [`a_function`](crate::a::very::long::path::to::a_function::which::is::far::too::long::to::fit).
///
/// [label]: https://example.invalid/label "title"
/// [`C::a`]: struct.C.html#structfield.a
enum D{
    /// Variant doc (adl906).
    A,
    /// Variant with fields.
    B{
        /// Nested field doc.
        x:u8,
    },
    // adl004 an ordinary comment between documented variants
    /// Tuple variant.
    C(
        /// Doc on a tuple field.
        u8,
        /// Another one.
        u16),
}
/// # Safety
///
/// ## Sub heading
/// Text with `inline code`, *emphasis*, **strong**, ~~strike~~, a hard break at the end  
/// and an escaped \* star, an &amp; entity, a footnote[^1] and some ünïcödé text: 日本語のコメント, emoji 🦀.
///
/// [^1]: the footnote
/// ***
/// <details><summary>html</summary>
/// <p>inline html</p>
/// </details>
unsafe trait E{
    /// Method doc.
    fn f(&self);
    /// Associated type doc.
    type T;
    /* adl005 block comment between documented trait items */
    /// Constant doc.
    const K:u8;
}
mod m{
    //! Inner line doc of a module (adl908).
    //! Second line.

    //! After a blank line.
    /// Nested function.
    fn f(){
        //! Inner doc of a function (adl909).
        /// Doc on a local item.
        struct L;
        // adl006 comment between statements
        /// Doc on a let statement.
        let x=1;
        /// Doc on an expression statement.
        x;
    }
}
impl C{
    //! Inner doc of an impl (adl910).
    /// Doc comment which is very long: the quick brown fox jumps over the lazy dog, again and again and again and again, until the line is full.
    #[inline]
    /// Second part after the attribute.
    fn g<
        /// Doc on a generic parameter.
        T,
        /// Doc on a lifetime parameter.
        'a,
    >(&self){}
}
/// Doc before a macro call (adl911).
mac!{x}
///
fn only_an_empty_doc(){}
/////// adl007 many slashes make an ordinary comment
/// Doc at the very end (adl912).
extern "C"{
    /// Foreign function doc.
    fn h();
}
