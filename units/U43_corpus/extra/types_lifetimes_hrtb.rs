// rustfmt-edition: 2021
// Extra corpus (written for the checks, not taken from rustfmt): lifetimes in every position (parameters, arguments, bounds, references, objects, anonymous and static, labels next to them) and higher ranked binders on bounds, predicates, pointers and closures.

// lth001 lifetime parameters on every kind of item
struct L1<'a>(&'a u8);
struct L2 < 'a , 'b : 'a , 'c : 'a + 'b , > ( & 'a u8 , & 'b u8 , & 'c u8 ) ;
struct L3<'a,'b>where 'b:'a,'a:'static{x:&'a&'b u8}
enum L4<'a>{A(&'a u8),B{x:&'a mut u8}}
union L5<'a>{a:&'a u8,b:&'a u16}
type L6<'a,'b:'a>=&'a&'b u8;   // lth002 a bounded lifetime on an alias
trait L7<'a,'b:'a>:'a+L8<'b>where Self:'b{type A<'c>:'c+'a where Self:'c,'a:'c;const K:&'a str;}
impl<'a,'b:'a>L7<'a,'b>for L2<'a,'b,'b>where 'b:'a,{type A<'c>=&'c&'a u8 where Self:'c,'a:'c;const K:&'a str="k";}
fn l9<'a,'b:'a,'c:'a+'b>(x:&'a u8,y:&'b u8,z:&'c u8)->&'a u8 where 'c:'a{x}
/* lth003 raw and long lifetime names */
fn l10<'r#type,'a_very_long_lifetime_name_number_one,'a_very_long_lifetime_name_number_two:'a_very_long_lifetime_name_number_one>(first_parameter:&'r#type u8,second_parameter:&'a_very_long_lifetime_name_number_one mut&'a_very_long_lifetime_name_number_two u8)->&'a_very_long_lifetime_name_number_one u8{loop{}}
struct L11<#[cfg(any())]'a,#[allow(unused)]'b:'static>(&'b u8);
type L12=unsafe<'a>&'a u8;
type L13 = unsafe < 'a , 'b > fn ( & 'a u8 , & 'b u8 ) ;
fn l14<'a>(&'a self)->impl Tr+use<'a,Self>{}

// lth004 anonymous and static
fn a1(x:&'_ u8)->&'_ u8{x}
fn a2(x:L1<'_>,y:&'static L1<'static>)->L1<'_>{x}
fn a3(x : & '_   mut L2 < '_ , '_ , 'static > ,/* lth005 between parameters */ y:Box<dyn Tr+'_>)->impl Tr+'_{y}
impl L1<'_>{fn m(&self)->&'_ u8{self.0}}
impl Tr for L1<'static>{}
impl<'a>Tr for&'a L1<'_>{}
static A4:&'static[&'static str]=&[];
const A5:&'static dyn Fn(&'static u8)->&'static u8=&|x|x;

// lth006 higher ranked binders
fn h1<F>(f:F)where F:for<'a>Fn(&'a u8)->&'a u8{}
fn h2<F>(f:F)where for<'a>F:Fn(&'a u8)->&'a u8{}
fn h3<F:for<'a>Fn(&'a u8)->&'a u8>(f:F){}
fn h4<F>(f:F)where for<'a,'b>F:for<'c>Fn(&'a u8,&'b u8,&'c u8)->&'c u8+for<'d>Tr6<'d>+'static,for<'a>&'a F:Tr,for<'a,>fn(&'a F):Tr{}
fn h5(f:&dyn for<'a>Fn(&'a u8)->&'a u8,/* lth007 between the two callbacks */g:Box<dyn for<'a,'b>FnMut(&'a u8,&'b u8)+Send>)->impl for<'a>Fn(&'a u8)->&'a u8{|x|x}
fn h6(f:for<'a>fn(&'a u8)->&'a u8,g:for<'a>unsafe extern "C" fn(&'a u8,...))->for<'a,'b>fn(&'a u8,&'b u8){loop{}}
fn h7<T>()where for<'a>T:Tr6<'a>,for<'a><T as Tr6<'a>>::A:for<'b>Tr6<'b>,for<'a,'b>&'a&'b T:Tr{}
fn h8<SomeVeryLongTypeParameterName>(callback: SomeVeryLongTypeParameterName) where for<'first_lifetime, 'second_lifetime> SomeVeryLongTypeParameterName: for<'third_lifetime> Fn(&'first_lifetime SomeVeryLongTypeNameNumberOne, &'second_lifetime mut SomeVeryLongTypeNameNumberTwo<'third_lifetime>) -> &'third_lifetime SomeVeryLongTypeNameNumberThree + Send + 'static {}
trait H9:for<'a>Tr6<'a>+for<'a,'b>Tr7<'a,'b,A=&'a&'b u8>{}
impl<T>H9 for T where T:for<'a>Tr6<'a,A=&'a u8>+?Sized{}
// lth016 attributes inside binders
fn h11<F>()where F:for<#[allow(unused)]'a,#[cfg(any())]'b>Fn(&'a u8,&'b u8){}
type H12=for<#[cfg(any())]'a>fn(&'a u8);
type H13<'x>=dyn for<'a>Tr6<'a,A=dyn for<'b>Tr7<'a,'b,A=&'x u8>+'x>+'x;

struct H10<'a,F:?Sized+for<'x>Fn(&'x u8)>{
    f:&'a F, // lth008 a borrowed callback
    /* lth009 before the boxed one */
    g : Box < dyn   for < 'x , 'y > Fn ( & 'x u8 , & 'y u8 ) -> & 'x u8 + 'a > ,
    h:for<'x>fn(&'x u8)->&'x u8,
    i:PhantomData<for<'x>fn(&'x&'a u8)>, // lth010 a marker
}

fn body<'a>(v:&'a[u8]){
    let a:&'a u8=&v[0];
    let b : & 'static   str = "é" ; // lth011 a static string
    let c=for<'x>|x:&'x u8|->&'x u8{x};
    /* lth012 closures with binders */
    let d=for<'x,'y>move|x:&'x u8,y:&'y u8|->&'y u8{y};
    let e=for<'x>async move|x:&'x u8|->&'x u8{x};
    let f:L1<'a>=L1::<'a>(a);
    let g=l9::<'a,'static,'static>(a,&0,&0);
    let h=x.method::<'a,u8>();
    let i=<L1<'a>as L7<'a,'static>>::K;
    // lth013 labels beside lifetimes
    'outer:loop{'inner:while let Some::<&'a u8>(_)=it.next(){break 'outer;}continue 'outer;}
    let j='blk:{if c{break 'blk 1;}2};
    'a:for _ in 0..1{let k:&'a u8=a;}
    let l=&'x' as&'static char;
    let m=['a','b','\''];
    let n:Box<dyn for<'x>Fn(&'x u8)->Box<dyn for<'y>Fn(&'y u8)->&'y u8+'x>+'a>=o;
    let p=|x:&'a u8,/* lth014 between closure parameters */y:&'_ u8|x;
    let q:&'a(dyn Tr+'a)=r as&'a(dyn Tr+'a); // lth015 a cast to a borrowed object
}
