// Extra corpus (written for the checks, not taken from rustfmt): two derives separated by an empty line (a known non-idempotent layout:
// the first pass drops the empty line, the second merges the derives).
#[derive(Clone)]

#[derive(Debug)]
struct TwoDerivesWithAnEmptyLine;

