// rustfmt-edition: 2021
// Extra corpus (written for the checks, not taken from rustfmt): array and slice types, tuple types including the unit and the one-element tuple, the never type, parenthesised and inferred types.

// atn001 arrays and slices in aliases
type A1=[u8;3];
type A2 = [ u8 ; 3 ] ;
type A3=[u8];
type A4 = [ [ u8 ; 2 ] ; 3 ] ;
type A5=[[[[[[u8;1];2];3];4];5];6];
type A6<'a>=&'a[&'a[&'a[u8]]];
type A7=[u8;{1+2}];   // atn002 a block as a length
type A8=[u8;N*2+M];
type A9=[u8;size_of::<[u16;4]>()];
type A10=[u8;0x10_usize];
type A11=[u8;{const fn f()->usize{3}f()}];
type A12=[(u8,u16);2];
type A13=[();0];
type A14=[!;0];
type A15=[u8;_];
/* atn003 a long array type */
type VeryLongArrayAliasNameForTheChecks = [[SomeVeryLongTypeNameNumberOne<SomeVeryLongTypeNameNumberTwo, SomeVeryLongTypeNameNumberThree>; SOME_VERY_LONG_CONSTANT_NAME_NUMBER_ONE * SOME_VERY_LONG_CONSTANT_NAME_NUMBER_TWO]; SOME_VERY_LONG_CONSTANT_NAME_NUMBER_THREE];

// atn004 tuples
type T0=();
type T1 = ( ) ;
type T2=(u8,);
type T3 = ( u8 , ) ;
type T4=(u8,u16);
type T5=(u8,u16,);
type T6=((u8,),);
type T7=(((((u8,),),),),);
type T8=((),((),()),((),((),())));
type T9=(u8);   /* atn005 parentheses that are not a tuple */
type T10=((u8));
type T11=(((u8,)));
type T12=(u8,u16,u32,u64,u128,i8,i16,i32,i64,i128,f32,f64,bool,char,usize,isize,(),!,str);
type T13<'a>=(&'a str,&'a mut[u8],*const(u8,),[(u8,);1],fn((u8,))->(u8,));
type T14=(_,_,);
type VeryLongTupleAliasNameForTheChecks = (SomeVeryLongTypeNameNumberOne, (SomeVeryLongTypeNameNumberTwo, SomeVeryLongTypeNameNumberThree), [SomeVeryLongTypeNameNumberFour; 4], (SomeVeryLongTypeNameNumberFive,));

// atn006 never
type N1=!;
type N2=fn()->!;
type N3=Result<!,!>;
type N4=(!,);
type N5=&'static!;
type N6=*const!;
type N7=Box<dyn Fn(!)->!>;
type N8=(!);
/* atn020 parenthesised and macro types */
type R1=(_);
type R2=([u8]);
type R3=(&((u8)));
type R4=(*const(u8));
type R5=((fn()));
type R6=vec![u8 ; 3];
type R7=Option<mac!(x  ,y)>;
type R8=[mac![u8];mac!(3)];

struct S<'a>{
    a:[u8;4], // atn007 a fixed array field
    b : & 'a [ ( u8 , ) ] ,
    /* atn008 before the unit field */
    c:(),
    d : ( ( ) , ) , // atn009 a tuple holding a unit
    e:[[f64;4];4],
    f:(u8),
    g:PhantomData<(fn()->!,[!;0])>,
}
struct U();
struct V(());
struct W((u8,),[u8;2],(),);
struct X(pub(crate)(u8,u16),pub [u8;2],/* atn010 between tuple fields */pub(in crate::a)(u8));

enum E{
    A([u8;2]),
    // atn011 between variants
    B((u8,)),
    C(()),
    D{x:[(u8,u16);2],y:(!,)}, /* atn012 after a variant */
}

fn f1(a:[u8;2],b:&[u8],c:&mut[[u8;2]],d:(u8,),e:())->[u8;2]{a}
fn f2((a,b):(u8,u16),[c,d]:[u8;2],/* atn013 between pattern parameters */(e,):(u8,),():())->(u8,){(a,)}
fn f3()->(){}
fn f4()->!{loop{}}
fn f5()->((),){((),)}
fn f6(first_parameter_name: [SomeVeryLongTypeNameNumberOne; SOME_VERY_LONG_CONSTANT_NAME_NUMBER_ONE], second_parameter_name: (SomeVeryLongTypeNameNumberTwo, SomeVeryLongTypeNameNumberThree,)) -> ([SomeVeryLongTypeNameNumberOne; SOME_VERY_LONG_CONSTANT_NAME_NUMBER_TWO], (SomeVeryLongTypeNameNumberFour,)) { loop{} }

fn body(){
    let a:[u8;3]=[1,2,3];
    let b : [ u8 ; 3 ] = [ 0 ; 3 ] ; // atn014 repeat expression
    let c:(u8,)=(1,);
    /* atn015 unit and parenthesised */
    let d:()=();
    let e:(u8)=(1);
    let f:((u8,),)=((1,),);
    let g:&[(u8,);1]=&[(1,)];
    let h:! =panic!();
    let i=x as(u8);
    let j=x as[u8;2];
    // atn016 turbofish with arrays and tuples
    let k=Vec::<[(u8,);2]>::new();
    let l=core::mem::size_of::<(u8,(u16,(u32,(u64,(u128,(i8,(i16,(i32,(i64,(i128,(f32,(f64,(bool,(char,))))))))))))))>();
    let m:[[[u8;2];2];2]=[[[0,1],[2,3]],[[4,5],[6,7]]];
    let n:[u8;{let x=2;x*2}]=[0;4];
    let o:Vec<_>=v.iter().map(|(a,b):&(u8,u16)|->(u16,u8){(*b,*a)}).collect::<Vec<(_,_)>>();
    let p:[&str;2]=["größe","日本語"]; // atn017 unicode strings in an array
}

impl Tr for[u8]{}
impl Tr for [ u8 ; 0 ] { }
impl<T,const N:usize>Tr for[T;N]where[T;N]:Sized,(T,):Sized,():Sized{}
/* atn018 impls on tuples */
impl Tr for(){}
impl<A>Tr for(A,){}
impl<A,B,>Tr for(A,B,){}
impl Tr for!{}

const K1:[u8;2]=[0,1];
static   K2 : ( u8 , ) = ( 1 , ) ; // atn019 last remark
