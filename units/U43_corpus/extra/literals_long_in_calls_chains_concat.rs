// rustfmt-edition: 2021
// Extra corpus (written for the checks, not taken from rustfmt): very long and multi-line string literals as arguments, receivers and macro pieces: calls, method chains, concat!, format-like macros and attributes.

// lng001 concat in constants
const   SHORT_CONCAT:&str=concat!("a","b") ;
const MIXED_CONCAT : & str = concat ! ( "text" , 1 ,2.5, 'c' ,true, -1 , 0xff,"\n" , ) ; /* lng002 every literal kind concat accepts */
const LONG_CONCAT:&str=concat!("the first piece of a long concatenation, ","the second piece of a long concatenation, ","the third piece, ","and the last");
const MULTI_LINE_CONCAT:&str=concat!("SELECT id, name, created_at\n",
"FROM users\n",     "WHERE id = $1\n",
    // lng003 a comment between macro arguments
    "ORDER BY created_at DESC\n" ,
"LIMIT 10");
const NESTED_CONCAT:&str=include_str!(concat!(env!("OUT_DIR"),"/generated/","some_file_with_a_long_name",".rs"));
const BYTES:&[u8]=concat_bytes!(b"abc",b'd',[1,2,3,],b"\xff\x00");
const EMPTY_CONCAT:&str=concat!();const ONE_CONCAT:&str=concat!("alone",);

// lng004 attributes built from strings
#[doc=concat!("Documentation for `","Thing","` assembled at compile time from several pieces which together are quite long.")]
#[cfg_attr(feature="docs",doc=include_str!("../README.md"))] #[path="some/very/long/path/to/a/module/file/which/lives/rather/deep/inside/the/source/tree/of/this/project/module.rs"]
mod generated ;
#[deprecated(since="0.1.0",note="this item is deprecated and the explanation why is rather long so that the attribute does not fit on one line")]
struct Thing;

fn long_arguments(){
    // lng005 one long string as the only argument
    log("Lorem ipsum dolor sit amet, consectetur adipiscing elit, sed do eiusmod tempor incididunt ut labore et dolore");
    log_with_level(Level::Warning,"Lorem ipsum dolor sit amet, consectetur adipiscing elit, sed do eiusmod tempor incididunt");
    first_is_long("Lorem ipsum dolor sit amet, consectetur adipiscing elit, sed do eiusmod tempor",1,2);
    nested(outer(inner("a string three calls deep, long enough that the expression is laid out vertically")));
    /* lng006 a multi-line literal as the last argument */
    execute(&connection,"
        CREATE TABLE things (
            id INTEGER PRIMARY KEY,
            name TEXT NOT NULL
        )
    ");
    execute ( & connection , "multi-line literal in the middle
    of the argument list" , & [ ] , /* lng007 after it */ Options :: default ( ) ) ;
    short("a","b");one("");
}

fn long_chains()->Result<(),Error>{
    let a=std::env::var("SOME_ENVIRONMENT_VARIABLE_WITH_A_LONG_NAME").expect("the environment variable SOME_ENVIRONMENT_VARIABLE_WITH_A_LONG_NAME must be set");
    let b = "a literal as the receiver of a chain".trim().split(' ').map(str::to_owned).filter(|w|w!="a").collect::<Vec<String>>().join("-");
    // lng008 a long literal receiver
    let c="Lorem ipsum dolor sit amet, consectetur adipiscing elit, sed do eiusmod tempor incididunt ut labore et dolore magna".len();
    let d = builder().name("a name").description("a description which is long enough that this builder chain can not stay on a line").version("1.0.0").build()?;
    let e=file.read_to_string(&mut buf).with_context(||format!("failed to read the file {} which was expected to be present in {}",name,dir.display()))?; /* lng009 a format in a closure in a chain */
    let f = "multi-line
receiver".lines().count();
    let g=x.replace("\r\n","\n").replace('\t',"    ").replace("a long needle which makes the chain wide","and its replacement which is also long");
    Ok(())
}

fn format_like_macros(){
    println!("{}","short");println!();println!("");
    println!("a format string which is long enough that the arguments go on their own lines: {} {} {}",first,second,third);
    // lng010 named and positional arguments
    let s=format!("{name} is {age} years old and lives in {city}, which is a long way from {0}",other_city,name=person.name,age=person.age,city=person.city);
    eprintln!("a multi-line
format string {}
with {} placeholders",1,2);
    write!(f,"{}{}{}","a","b","c")?;writeln ! ( f , "{:>width$.prec$}" , value , width = 10 , prec = 3 ) ? ;
    assert!(condition,"an assertion message which is long enough that the call does not fit: {:?}",value); /* lng011 after an assert */
    assert_eq!(left,right,"left and right differ");
    let args=format_args!("{} {}",1,2);
    panic!("{}",concat!("a concat ","inside ","a panic"));
    unreachable!("this can not happen because of an invariant which takes a long sentence to explain properly, see above");
    compile_error!("this configuration is not supported");
    let t=stringify!(a + b , "text" ,  'c');
    let e=env!("CARGO_PKG_VERSION");let o = option_env!( "OPTIONAL" ) ;
}

fn long_strings_in_other_expressions(x:&str)->&'static str{
    let array=["the first element of an array of strings, long enough to force one element per line","the second element","3"];
    let tuple = ( "a tuple of two strings, the first of which is long enough that it must be broken up" , "two" ) ;
    // lng012 a struct literal with long field values
    let config=Config{name:"name",description:"a description which is long enough that the struct literal can not stay on a line",tags:vec!["one","two"],..Default::default()};
    let sum = "first ".to_owned()+"second "+"third "+"a fourth piece which is long enough to push the whole sum over the line width, "+"fifth";
    if x=="a long string in a condition which makes the if header too wide for one line"||x=="short"{ return "returned literal" ; }
    let v='search:{ for s in ["a","b"]{ if s==x{ break 'search "found in the list" ; } } /* lng013 before the tail expression of a labelled block */ "not found" };
    let closure=|s:&str|->String{format!("{}{}",s,"suffix")};
    let idx = "indexing a long literal, which is unusual, but perfectly legal, and which makes a wide line together with its index" [ 0 .. 10 ] . to_string ( ) ;
    match x{"a"=>"A", // lng014 after an arm
        _=>"a default value returned from the match, long enough that the arm needs a block" }
}
fn too_long_for_any_layout(x:&str)->&str{ match x{ "a"=>"A",_=>"a default value returned from the match which is long enough that the arm does not fit even inside a block" } }
